package signal

import (
	"math"
	"math/big"
	"math/rand"
	"testing"
	"time"
)

// The expected values in this file are computed without the library: either
// they are literals worked out by hand, or they come from an emulation of the
// IEEE-754 double computation with math/big (53-bit mantissa, round to nearest
// even) followed by an exact round-half-away-from-zero on the big value, or -
// only for inputs whose result depends on the platform's out-of-range
// float->int conversion - from the defining formula written out below.

// r5c17Big emulates round(num/den*x) as the library defines it: a double
// division, a double multiplication, then rounding half away from zero.
// All operands must be finite, nonzero where they divide and far from the
// overflow/underflow thresholds (big.Float has no subnormals).
func r5c17Big(num, den float64, x int64) *big.Int {
	newF := func() *big.Float { return new(big.Float).SetPrec(53).SetMode(big.ToNearestEven) }
	q := newF().Quo(newF().SetFloat64(num), newF().SetFloat64(den))
	p := newF().Mul(q, newF().SetInt64(x)) // SetInt64 rounds to 53 bits like float64(x)
	whole, _ := p.Int(nil)                 // truncated toward zero
	frac := new(big.Float).SetPrec(200).Sub(p, new(big.Float).SetPrec(200).SetInt(whole))
	half := big.NewFloat(0.5)
	switch {
	case frac.Cmp(half) >= 0:
		whole.Add(whole, big.NewInt(1))
	case frac.Cmp(new(big.Float).Neg(half)) <= 0:
		whole.Sub(whole, big.NewInt(1))
	}
	return whole
}

func r5c17FitsInt(v *big.Int) bool {
	return v.IsInt64() && int64(int(v.Int64())) == v.Int64()
}

//go:noinline
func r5c17RefDuration(f float64, events int) time.Duration {
	return time.Duration(math.Round(float64(time.Second) / f * float64(events)))
}

//go:noinline
func r5c17RefEvents(f float64, d time.Duration) int {
	return int(math.Round(f / float64(time.Second) * float64(d)))
}

var r5c17Rates = []float64{
	8000, 11025, 16000, 22050, 32000, 44100, 48000, 88200, 96000, 176400,
	192000, 352800, 384000, 705600, 768000, 2822400, 5644800,
	1, 2, 3, 7, 10, 60, 999, 1000, 1001, 65536, 99999, 333333, 999999, 1000000,
	0.001, 0.1, 0.5, 1.5, 29.97, 59.94, 44100.5, 47999.999, 1e9 / 3, 1e9, 2e9, 4e9, 3e9,
	440, 261.6255653005986, 1e7, 123456789.125,
}

func TestRefactor5C17Literals(t *testing.T) {
	dur := []struct {
		f    Frequency
		n    int
		want time.Duration
	}{
		{44100, 88200, 2 * time.Second},
		{44100, 1, 22676},   // 22675.73... ns
		{44100, 3, 68027},   // 68027.21...
		{44100, -3, -68027}, //
		{48000, 1, 20833},   // 20833.33...
		{48000, 2, 41667},   // 41666.66...
		{48000, -2, -41667}, //
		{48000, 48000 * 3600, time.Hour},
		{8000, 8000 * 86400, 24 * time.Hour},
		{1, 0, 0},
		{1, 1, time.Second},
		{1, -1, -time.Second},
		{1000000, 7, 7 * time.Microsecond},
		{2e9, 1, 1}, // exact tie 0.5 -> away from zero
		{2e9, 3, 2}, // 1.5 -> 2
		{2e9, 5, 3}, // 2.5 -> 3 (not to even)
		{2e9, -1, -1},
		{2e9, -5, -3},
		{4e9, 1, 0}, // 0.25
		{4e9, -1, 0},
		{4e9, 2, 1}, // 0.5
		{4e9, 3, 1}, // 0.75
		{4e9, -2, -1},
		{4e9, 6, 2}, // 1.5
		{0.5, 1, 2 * time.Second},
		{0.001, 1, 1000 * time.Second},
		{-1, 1, -time.Second},
		{-2e9, 1, -1},
		{-2e9, -1, 1},
	}
	for _, c := range dur {
		if got := c.f.Duration(c.n); got != c.want {
			t.Errorf("Frequency(%v).Duration(%d) = %d, want %d", float64(c.f), c.n, got, c.want)
		}
	}
	ev := []struct {
		f    Frequency
		d    time.Duration
		want int
	}{
		{44100, 2 * time.Second, 88200},
		{44100, time.Second, 44100},
		{44100, 0, 0},
		{44100, 22676, 1},
		{44100, 11337, 0},   // 0.49996..
		{44100, 11338, 1},   // 0.500005..
		{44100, -11338, -1}, //
		{44100, -11337, 0},
		{48000, time.Millisecond, 48},
		{48000, time.Hour, 48000 * 3600},
		{1, time.Second, 1},
		{1, 499999999, 0},
		{1, 500000000, 1}, // exact tie
		{1, -500000000, -1},
		{1, -499999999, 0},
		{1, 1500000000, 2}, // 1.5 -> 2
		{1, 2500000000, 3}, // 2.5 -> 3 (not to even)
		{1, -2500000000, -3},
		{5e8, 1, 1}, // 0.5 event per ns, tie
		{5e8, 3, 2},
		{5e8, 5, 3},
		{5e8, -1, -1},
		{5e8, -5, -3},
		{2.5e8, 1, 0}, // 0.25
		{2.5e8, 2, 1}, // 0.5
		{2.5e8, -2, -1},
		{2.5e8, -1, 0},
		{1000000, 7 * time.Microsecond, 7},
		{-1, time.Second, -1},
		{-5e8, 1, -1},
	}
	for _, c := range ev {
		if got := c.f.Events(c.d); got != c.want {
			t.Errorf("Frequency(%v).Events(%d) = %d, want %d", float64(c.f), c.d, got, c.want)
		}
	}
}

// r5c17Counts returns event counts worth checking for rate f: small ones,
// counts around whole seconds and around the 24 h span, counts whose duration
// lies next to a rounding tie, and random ones.
func r5c17Counts(f float64, rng *rand.Rand) []int64 {
	var ns []int64
	for i := int64(-70); i <= 70; i++ {
		ns = append(ns, i)
	}
	top := int64(f * 86400)
	for _, base := range []int64{int64(f), int64(f * 60), int64(f * 3600), top, top / 2, top / 3} {
		for i := int64(-3); i <= 3; i++ {
			ns = append(ns, base+i, -(base + i))
		}
	}
	// counts whose exact duration n*1e9/f is closest to k+0.5 nanoseconds
	for _, k := range []float64{0, 1, 2, 10, 1000, 1e6, 1e9, 86399e9} {
		n := int64((k + 0.5) * f / 1e9)
		for i := int64(-2); i <= 2; i++ {
			ns = append(ns, n+i, -(n + i))
		}
	}
	for i := 0; i < 300; i++ {
		ns = append(ns, rng.Int63n(top+2), -rng.Int63n(top+2), rng.Int63n(1<<20))
	}
	return ns
}

func TestRefactor5C17DurationAgainstBig(t *testing.T) {
	rng := rand.New(rand.NewSource(517))
	rates := append([]float64(nil), r5c17Rates...)
	for i := 0; i < 60; i++ {
		rates = append(rates, float64(1+rng.Intn(1000000)), 1+rng.Float64()*1e6)
	}
	checked := 0
	for _, f := range rates {
		for _, n64 := range r5c17Counts(f, rng) {
			if int64(int(n64)) != n64 {
				continue // count not representable on this platform
			}
			want := r5c17Big(1e9, f, n64)
			if !want.IsInt64() {
				continue
			}
			checked++
			if got := Frequency(f).Duration(int(n64)); int64(got) != want.Int64() {
				t.Fatalf("Frequency(%v).Duration(%d) = %d, want %d", f, n64, got, want.Int64())
			}
		}
	}
	if checked < 50000 {
		t.Fatalf("only %d cases checked", checked)
	}
}

func TestRefactor5C17EventsAgainstBig(t *testing.T) {
	rng := rand.New(rand.NewSource(1517))
	rates := append([]float64(nil), r5c17Rates...)
	for i := 0; i < 60; i++ {
		rates = append(rates, float64(1+rng.Intn(1000000)), 1+rng.Float64()*1e6)
	}
	day := int64(24 * time.Hour)
	checked := 0
	for _, f := range rates {
		var ds []int64
		for i := int64(-70); i <= 70; i++ {
			ds = append(ds, i, int64(time.Second)+i, day+i, -day+i)
		}
		// durations next to the point where f*d is k+0.5 events
		for _, k := range []float64{0, 1, 2, 3, 100, 12345, 1e6} {
			d := int64((k + 0.5) * 1e9 / f)
			for i := int64(-3); i <= 3; i++ {
				ds = append(ds, d+i, -(d + i))
			}
		}
		for i := 0; i < 400; i++ {
			ds = append(ds, rng.Int63n(day+1), -rng.Int63n(day+1), rng.Int63n(1<<32), rng.Int63())
		}
		for _, d := range ds {
			want := r5c17Big(f, 1e9, d)
			if !r5c17FitsInt(want) {
				continue // result depends on the platform's out-of-range conversion
			}
			checked++
			if got := Frequency(f).Events(time.Duration(d)); int64(got) != want.Int64() {
				t.Fatalf("Frequency(%v).Events(%d) = %d, want %d", f, d, got, want.Int64())
			}
		}
	}
	if checked < 30000 {
		t.Fatalf("only %d cases checked", checked)
	}
}

// Values around 2^52 and 2^53, where a double stops having a fractional part,
// and around the limits of int64: an exactly representable period of 1 ns,
// 0.5 ns, 0.25 ns and 2 ns makes the expected value easy to state.
func TestRefactor5C17LargeMagnitudes(t *testing.T) {
	if math.MaxInt == math.MaxInt64 {
		big := []int64{1<<52 - 2, 1<<52 - 1, 1 << 52, 1<<52 + 1, 1<<53 - 1, 1 << 53, 1<<53 + 2, 1 << 60, 1<<62 + 1<<20}
		for _, v := range big {
			for _, s := range []int64{1, -1} {
				n := int(s * v)
				// period 1 ns: the duration is float64(n) converted back
				if got, want := Frequency(1e9).Duration(n), time.Duration(int64(float64(n))); got != want {
					t.Errorf("1e9.Duration(%d) = %d, want %d", n, got, want)
				}
				if got, want := Frequency(1e9).Events(time.Duration(n)), int(int64(float64(n))); got != want {
					t.Errorf("1e9.Events(%d) = %d, want %d", n, got, want)
				}
				// period 2 ns, |result| < 2^63
				if v < 1<<62 {
					if got, want := Frequency(5e8).Duration(n), time.Duration(2*int64(float64(n))); got != want {
						t.Errorf("5e8.Duration(%d) = %d, want %d", n, got, want)
					}
				}
			}
		}
		// period 0.5 ns: n/2 rounded half away from zero, n below 2^53 is exact
		for _, v := range []int64{1<<52 - 1, 1<<52 + 1, 1<<53 - 1, 1<<53 - 3, 1<<52 - 3} {
			for _, s := range []int64{1, -1} {
				n := s * v
				want := n / 2
				if n%2 != 0 {
					want += s
				}
				if got := Frequency(2e9).Duration(int(n)); int64(got) != want {
					t.Errorf("2e9.Duration(%d) = %d, want %d", n, got, want)
				}
				if got := Frequency(5e8).Events(time.Duration(n)); int64(got) != want {
					t.Errorf("5e8.Events(%d) = %d, want %d", n, got, want)
				}
			}
		}
	}
	// 32-bit and 64-bit: results next to the limits of int32
	for _, d := range []int64{1<<31 - 2, 1<<31 - 1, -(1 << 31), -(1<<31 - 1), 1<<30 + 1} {
		if got, want := Frequency(1e9).Events(time.Duration(d)), int(d); got != want {
			t.Errorf("1e9.Events(%d) = %d, want %d", d, got, want)
		}
	}
	// (2^32-3)/2 = 2^31 - 1.5 -> 2^31-2 + ... : 2147483646.5 -> 2147483647
	if got, want := Frequency(5e8).Events(time.Duration(1<<32-3)), int(1<<31-1); got != want {
		t.Errorf("5e8.Events(2^32-3) = %d, want %d", got, want)
	}
	if got, want := Frequency(5e8).Events(time.Duration(-(1<<32 - 1))), int(-(1 << 31)); got != want {
		t.Errorf("5e8.Events(-(2^32-1)) = %d, want %d", got, want)
	}
}

// Inputs outside the property: zero, negative, infinite, NaN and denormal
// frequencies, extreme counts. What the float->int conversion yields there
// is platform specific, so the expectation is the defining formula.
func TestRefactor5C17ExtremeInputsFollowFormula(t *testing.T) {
	fs := []float64{
		0, math.Copysign(0, -1), math.NaN(), math.Inf(1), math.Inf(-1),
		math.SmallestNonzeroFloat64, -math.SmallestNonzeroFloat64, 1e-310, 1e-300, 1e-290, 1e-20,
		math.MaxFloat64, -math.MaxFloat64, 1e300, 1e19, 1e18, 1e10, 1e-9, -44100, 44100, 1, 0.5, 2e9, 3e9,
		9.223372036854775e18, 4.611686018427388e18, 1e9 / 4503599627370496, 1e9 / 4503599627370495.5,
	}
	ns := []int{
		0, 1, -1, 2, -2, 3, 1000, math.MaxInt32, math.MinInt32, math.MaxInt32 - 1, math.MinInt32 + 1,
		math.MaxInt, math.MinInt, math.MaxInt - 1, math.MinInt + 1, math.MaxInt / 2, math.MinInt / 2,
	}
	ds := []time.Duration{
		0, 1, -1, 2, 3, -3, time.Second, -time.Second, 24 * time.Hour, math.MaxInt64, math.MinInt64,
		math.MaxInt64 - 1, math.MinInt64 + 1, 1 << 31, 1<<31 - 1, -(1 << 31), -(1<<31 + 1), 1 << 32, 1 << 52,
		1<<52 + 1, 1<<53 + 1, -(1 << 52), 1<<52 - 1, 1 << 62,
	}
	for _, f := range fs {
		for _, n := range ns {
			if got, want := Frequency(f).Duration(n), r5c17RefDuration(f, n); got != want {
				t.Errorf("Frequency(%v).Duration(%d) = %d, want %d", f, n, got, want)
			}
		}
		for _, d := range ds {
			if got, want := Frequency(f).Events(d), r5c17RefEvents(f, d); got != want {
				t.Errorf("Frequency(%v).Events(%d) = %d, want %d", f, d, got, want)
			}
		}
	}
	rng := rand.New(rand.NewSource(99))
	for i := 0; i < 200000; i++ {
		f := math.Float64frombits(rng.Uint64())
		n := int(rng.Uint64() >> uint(rng.Intn(64)))
		if rng.Intn(2) == 0 {
			n = -n
		}
		d := time.Duration(rng.Uint64() >> uint(rng.Intn(64)))
		if rng.Intn(2) == 0 {
			d = -d
		}
		if i%2 == 0 {
			// a frequency of ordinary magnitude with a random mantissa
			f = math.Ldexp(1+rng.Float64(), rng.Intn(80)-30)
		}
		if got, want := Frequency(f).Duration(n), r5c17RefDuration(f, n); got != want {
			t.Fatalf("Frequency(%v).Duration(%d) = %d, want %d", f, n, got, want)
		}
		if got, want := Frequency(f).Events(d), r5c17RefEvents(f, d); got != want {
			t.Fatalf("Frequency(%v).Events(%d) = %d, want %d", f, d, got, want)
		}
	}
}

func TestRefactor5C17MonotoneAndRoundTrip(t *testing.T) {
	rng := rand.New(rand.NewSource(7))
	rates := []float64{8000, 11025, 44100, 48000, 96000, 192000, 1, 3, 7, 999983, 1000000, 22050.5}
	for i := 0; i < 40; i++ {
		rates = append(rates, float64(1+rng.Intn(1000000)))
	}
	for _, f := range rates {
		fr := Frequency(f)
		top := int64(f * 86400)
		for i := 0; i < 500; i++ {
			n64 := rng.Int63n(top + 1)
			if int64(int(n64)) != n64 || int64(int(n64+1)) != n64+1 {
				continue
			}
			n := int(n64)
			d0, d1 := fr.Duration(n), fr.Duration(n+1)
			if d1 < d0 {
				t.Fatalf("Frequency(%v).Duration not monotone at %d: %d then %d", f, n, d0, d1)
			}
			if exact := float64(n) / f * 1e9; math.Abs(float64(d0)-exact) > 0.5+exact*1e-15 {
				t.Fatalf("Frequency(%v).Duration(%d) = %d, exact %v", f, n, d0, exact)
			}
			if back := fr.Events(d0); back != n {
				t.Fatalf("Frequency(%v): %d events -> %d -> %d events", f, n, d0, back)
			}
			d := time.Duration(rng.Int63n(int64(24*time.Hour) + 1))
			e0, e1 := fr.Events(d), fr.Events(d+1)
			if int64(int(float64(d)*f/1e9+1)) != int64(float64(d)*f/1e9+1) {
				continue
			}
			if e1 < e0 {
				t.Fatalf("Frequency(%v).Events not monotone at %d: %d then %d", f, d, e0, e1)
			}
			if exact := float64(d) * f / 1e9; math.Abs(float64(e0)-exact) > 0.5+exact*1e-15 {
				t.Fatalf("Frequency(%v).Events(%d) = %d, exact %v", f, d, e0, exact)
			}
		}
	}
}

var (
	r5c17SinkD time.Duration
	r5c17SinkN int
)

func TestRefactor5C17NoAllocations(t *testing.T) {
	fs := []Frequency{44100, 2e9, 0, Frequency(math.NaN()), Frequency(math.Inf(1)), 1e-300, 1e300}
	ns := []int{0, 1, -1, 88200, math.MaxInt, math.MinInt, 1 << 30}
	ds := []time.Duration{0, 1, -1, time.Second, 24 * time.Hour, math.MaxInt64, math.MinInt64}
	allocs := testing.AllocsPerRun(100, func() {
		for _, f := range fs {
			for _, n := range ns {
				r5c17SinkD += f.Duration(n)
			}
			for _, d := range ds {
				r5c17SinkN += f.Events(d)
			}
		}
	})
	if allocs != 0 {
		t.Fatalf("Duration/Events allocate: %v allocations per run", allocs)
	}
}
