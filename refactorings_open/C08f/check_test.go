package signal

import (
	"fmt"
	"math"
	"math/rand"
	"testing"
	"unsafe"

	"golang.org/x/exp/constraints"
)

// Independent model of the floating to fixed-point conversion. It never
// converts a float to a narrow integer type: the code is computed as an
// int64 from a truncated float64 and then offset / masked with integer
// arithmetic.

type (
	r5cI16 int16
	r5cU32 uint32
	r5cF32 float32
	r5cF64 float64
)

func r5cWidth[D SignalTypes]() uint {
	var d D
	return uint(unsafe.Sizeof(d)) * 8
}

// r5cSigned returns the signed code of f for a w bit destination.
func r5cSigned(f float64, w uint) int64 {
	hi := int64(math.MaxInt64)
	if w < 64 {
		hi = int64(1)<<(w-1) - 1
	}
	lo := -hi - 1
	if f >= 1 {
		return hi
	}
	if f <= -1 {
		return lo
	}
	// float64(2^(w-1)-1) is exact up to 32 bits and rounds to 2^63 for 64.
	scale := math.Ldexp(1, int(w-1))
	if f > 0 {
		scale = float64(hi)
	}
	return int64(math.Trunc(f * scale))
}

// r5cUnsigned returns the unsigned code of f for a w bit destination.
func r5cUnsigned(f float64, w uint) uint64 {
	code := uint64(r5cSigned(f, w)) + uint64(1)<<(w-1)
	if w < 64 {
		code &= uint64(1)<<w - 1
	}
	return code
}

func r5cInputs() []float64 {
	in := []float64{
		0, math.Copysign(0, -1), 1, -1, 0.5, -0.5, 0.25, -0.75, 1.0 / 3, -1.0 / 3, 2.0 / 3, -2.0 / 3,
		math.Nextafter(1, 0), math.Nextafter(1, 2), math.Nextafter(-1, 0), math.Nextafter(-1, -2),
		float64(math.Nextafter32(1, 0)), float64(math.Nextafter32(1, 2)),
		float64(math.Nextafter32(-1, 0)), float64(math.Nextafter32(-1, -2)),
		math.Inf(1), math.Inf(-1), math.MaxFloat64, -math.MaxFloat64,
		math.MaxFloat32, -math.MaxFloat32,
		math.SmallestNonzeroFloat64, -math.SmallestNonzeroFloat64,
		math.SmallestNonzeroFloat32, -math.SmallestNonzeroFloat32,
		0.999, -0.999, 1.001, -1.001, 2, -2, 1e300, -1e300, 1e-300, -1e-300,
	}
	for k := -70; k <= 70; k++ {
		p := math.Ldexp(1, k)
		for _, s := range []float64{1, -1} {
			in = append(in, s*p, s*math.Nextafter(p, 0), s*math.Nextafter(p, math.Inf(1)))
		}
	}
	for _, m := range []float64{127, 128, 255, 256, 32767, 32768, 65535, 65536, 1 << 31, 1<<31 - 1, 1 << 32, 1 << 63, 1 << 64} {
		for _, j := range []float64{0, 1, 2, 3, 0.5, 1.5} {
			in = append(in, j/m, -j/m, (m-j)/m, -(m-j)/m, (m+j)/m, -(m+j)/m, m+j, -m-j)
		}
	}
	rnd := rand.New(rand.NewSource(508))
	for i := 0; i < 600; i++ {
		in = append(in, rnd.Float64()*2-1)
	}
	for i := 0; i < 100; i++ {
		in = append(in, (rnd.Float64()*2-1)*math.Ldexp(1, rnd.Intn(140)-70))
	}
	return in
}

// r5cBuild makes a source buffer holding in (the last frame may be partial)
// and returns the values as they are stored.
func r5cBuild[S constraints.Float](ch int, in []float64) (*Buffer[S], []float64) {
	frames := 0
	if ch > 0 {
		frames = (len(in) + ch - 1) / ch
	}
	src := Alloc[S](Allocator{Channels: ch, Capacity: frames})
	stored := make([]float64, 0, len(in))
	for _, x := range in {
		if src.Len() == src.Cap() {
			break
		}
		src.AppendSample(S(x))
		stored = append(stored, float64(S(x)))
	}
	return src, stored
}

func r5cCeil(n, ch int) int {
	if ch == 0 {
		return 0
	}
	return (n + ch - 1) / ch
}

func r5cCheckSigned[S constraints.Float, D constraints.Signed](t *testing.T, name string, ch, dstLen int, in []float64) {
	t.Helper()
	w := r5cWidth[D]()
	src, stored := r5cBuild[S](ch, in)
	dst := Alloc[D](Allocator{Channels: ch, Capacity: r5cCeil(dstLen, ch) + 1})
	const sentinel = 0x55
	for dst.Len() < dstLen && dst.Len() < dst.Cap() {
		dst.AppendSample(sentinel)
	}
	dstLen = dst.Len()
	full := dst.data[:cap(dst.data)]
	for i := dstLen; i < len(full); i++ {
		full[i] = sentinel
	}
	srcLen, srcCap, dstCap := src.Len(), src.Cap(), dst.Cap()
	got := FloatAsSigned(src, dst)
	n := srcLen
	if dstLen < n {
		n = dstLen
	}
	want := 0
	if n > 0 {
		want = r5cCeil(srcLen, ch)
		if c := r5cCeil(dstLen, ch); c < want {
			want = c
		}
	}
	if got != want {
		t.Errorf("%s ch=%d src=%d dst=%d: returned %d, want %d", name, ch, srcLen, dstLen, got, want)
	}
	if src.Len() != srcLen || src.Cap() != srcCap || dst.Len() != dstLen || dst.Cap() != dstCap {
		t.Errorf("%s: len/cap changed", name)
	}
	bad := 0
	for i := 0; i < n; i++ {
		if g, e := int64(dst.Sample(i)), r5cSigned(stored[i], w); g != e {
			if bad++; bad < 6 {
				t.Errorf("%s: %v (%#x) -> %d, want %d", name, stored[i], math.Float64bits(stored[i]), g, e)
			}
		}
		if float64(src.Sample(i)) != stored[i] {
			t.Errorf("%s: source modified at %d", name, i)
		}
	}
	for i := n; i < len(full); i++ {
		if full[i] != sentinel {
			t.Errorf("%s: destination sample %d beyond the overlap was written", name, i)
		}
	}
}

func r5cCheckUnsigned[S constraints.Float, D constraints.Unsigned](t *testing.T, name string, ch, dstLen int, in []float64) {
	t.Helper()
	w := r5cWidth[D]()
	src, stored := r5cBuild[S](ch, in)
	dst := Alloc[D](Allocator{Channels: ch, Capacity: r5cCeil(dstLen, ch) + 1})
	const sentinel = 0x55
	for dst.Len() < dstLen && dst.Len() < dst.Cap() {
		dst.AppendSample(sentinel)
	}
	dstLen = dst.Len()
	full := dst.data[:cap(dst.data)]
	for i := dstLen; i < len(full); i++ {
		full[i] = sentinel
	}
	srcLen, srcCap, dstCap := src.Len(), src.Cap(), dst.Cap()
	got := FloatAsUnsigned(src, dst)
	n := srcLen
	if dstLen < n {
		n = dstLen
	}
	want := 0
	if n > 0 {
		want = r5cCeil(srcLen, ch)
		if c := r5cCeil(dstLen, ch); c < want {
			want = c
		}
	}
	if got != want {
		t.Errorf("%s ch=%d src=%d dst=%d: returned %d, want %d", name, ch, srcLen, dstLen, got, want)
	}
	if src.Len() != srcLen || src.Cap() != srcCap || dst.Len() != dstLen || dst.Cap() != dstCap {
		t.Errorf("%s: len/cap changed", name)
	}
	bad := 0
	for i := 0; i < n; i++ {
		if g, e := uint64(dst.Sample(i)), r5cUnsigned(stored[i], w); g != e {
			if bad++; bad < 6 {
				t.Errorf("%s: %v (%#x) -> %d, want %d", name, stored[i], math.Float64bits(stored[i]), g, e)
			}
		}
		if float64(src.Sample(i)) != stored[i] {
			t.Errorf("%s: source modified at %d", name, i)
		}
	}
	for i := n; i < len(full); i++ {
		if full[i] != sentinel {
			t.Errorf("%s: destination sample %d beyond the overlap was written", name, i)
		}
	}
}

func r5cAllSigned[S constraints.Float](t *testing.T, s string, ch, dstLen int, in []float64) {
	r5cCheckSigned[S, int8](t, s+"->int8", ch, dstLen, in)
	r5cCheckSigned[S, int16](t, s+"->int16", ch, dstLen, in)
	r5cCheckSigned[S, int32](t, s+"->int32", ch, dstLen, in)
	r5cCheckSigned[S, int64](t, s+"->int64", ch, dstLen, in)
	r5cCheckSigned[S, int](t, s+"->int", ch, dstLen, in)
	r5cCheckSigned[S, r5cI16](t, s+"->named int16", ch, dstLen, in)
}

func r5cAllUnsigned[S constraints.Float](t *testing.T, s string, ch, dstLen int, in []float64) {
	r5cCheckUnsigned[S, uint8](t, s+"->uint8", ch, dstLen, in)
	r5cCheckUnsigned[S, uint16](t, s+"->uint16", ch, dstLen, in)
	r5cCheckUnsigned[S, uint32](t, s+"->uint32", ch, dstLen, in)
	r5cCheckUnsigned[S, uint64](t, s+"->uint64", ch, dstLen, in)
	r5cCheckUnsigned[S, uint](t, s+"->uint", ch, dstLen, in)
	r5cCheckUnsigned[S, uintptr](t, s+"->uintptr", ch, dstLen, in)
	r5cCheckUnsigned[S, r5cU32](t, s+"->named uint32", ch, dstLen, in)
}

func TestRefactor5C08Values(t *testing.T) {
	in := r5cInputs()
	for _, ch := range []int{1, 2, 3} {
		r5cAllSigned[float64](t, "float64", ch, len(in), in)
		r5cAllSigned[float32](t, "float32", ch, len(in), in)
		r5cAllSigned[r5cF32](t, "named float32", ch, len(in), in)
		r5cAllSigned[r5cF64](t, "named float64", ch, len(in), in)
		r5cAllUnsigned[float64](t, "float64", ch, len(in), in)
		r5cAllUnsigned[float32](t, "float32", ch, len(in), in)
		r5cAllUnsigned[r5cF32](t, "named float32", ch, len(in), in)
		r5cAllUnsigned[r5cF64](t, "named float64", ch, len(in), in)
	}
}

// float32 bit patterns with a stride, plus every pattern next to the
// interesting boundaries. NaN patterns are skipped (result unspecified).
func TestRefactor5C08Float32Patterns(t *testing.T) {
	var in []float64
	add := func(bits uint32) {
		f := math.Float32frombits(bits)
		if f != f {
			return
		}
		in = append(in, float64(f))
	}
	for b := uint64(0); b < 1<<32; b += 40009 {
		add(uint32(b))
	}
	for _, c := range []uint32{0, 0x3f800000, 0x7f800000, 0x80000000, 0xbf800000, 0xff800000, 0x00800000, 0x80800000, 0x3f000000, 0xbf000000} {
		for d := uint32(0); d < 64; d++ {
			add(c + d)
			add(c - d)
		}
	}
	r5cAllSigned[float32](t, "float32", 2, len(in), in)
	r5cAllUnsigned[float32](t, "float32", 2, len(in), in)
}

func TestRefactor5C08Monotone(t *testing.T) {
	const n = 4001
	in := make([]float64, n)
	for i := range in {
		in[i] = -1.05 + 2.1*float64(i)/float64(n-1)
	}
	src, _ := r5cBuild[float64](1, in)
	d8 := Alloc[int8](Allocator{Channels: 1, Length: n, Capacity: n})
	d64 := Alloc[int64](Allocator{Channels: 1, Length: n, Capacity: n})
	u16 := Alloc[uint16](Allocator{Channels: 1, Length: n, Capacity: n})
	u64 := Alloc[uint64](Allocator{Channels: 1, Length: n, Capacity: n})
	FloatAsSigned(src, d8)
	FloatAsSigned(src, d64)
	FloatAsUnsigned(src, u16)
	FloatAsUnsigned(src, u64)
	for i := 1; i < n; i++ {
		if d8.Sample(i) < d8.Sample(i-1) || d64.Sample(i) < d64.Sample(i-1) ||
			u16.Sample(i) < u16.Sample(i-1) || u64.Sample(i) < u64.Sample(i-1) {
			t.Fatalf("not monotone at %d (%v)", i, in[i])
		}
	}
	if d8.Sample(0) != -128 || d8.Sample(n-1) != 127 || d64.Sample(0) != math.MinInt64 || d64.Sample(n-1) != math.MaxInt64 ||
		u16.Sample(0) != 0 || u16.Sample(n-1) != 65535 || u64.Sample(0) != 0 || u64.Sample(n-1) != math.MaxUint64 {
		t.Errorf("ends are not the extreme codes")
	}
}

func TestRefactor5C08Shapes(t *testing.T) {
	in := []float64{0.5, -0.5, 1, -1, 0.25, -0.25, 3, -3, 0, 0.125, -0.125}
	for ch := 0; ch <= 4; ch++ {
		for srcLen := 0; srcLen <= len(in); srcLen++ {
			for _, dstLen := range []int{0, 1, 2, 3, 5, 8, 11, 12, 15} {
				name := fmt.Sprintf("shape ch=%d src=%d dst=%d", ch, srcLen, dstLen)
				r5cCheckSigned[float32, int16](t, name, ch, dstLen, in[:srcLen])
				r5cCheckSigned[float64, int64](t, name, ch, dstLen, in[:srcLen])
				r5cCheckUnsigned[float64, uint8](t, name, ch, dstLen, in[:srcLen])
				r5cCheckUnsigned[float32, uint64](t, name, ch, dstLen, in[:srcLen])
			}
		}
	}
	// zero value buffers and zero capacity
	if n := FloatAsSigned(&Buffer[float64]{}, &Buffer[int32]{}); n != 0 {
		t.Errorf("zero buffers: %d", n)
	}
	if n := FloatAsUnsigned(Alloc[float32](Allocator{Channels: 2}), Alloc[uint16](Allocator{Channels: 2, Length: 3, Capacity: 3})); n != 0 {
		t.Errorf("empty source: %d", n)
	}
}

func TestRefactor5C08Windows(t *testing.T) {
	const ch, frames = 2, 10
	src := Alloc[float64](Allocator{Channels: ch, Length: frames, Capacity: frames})
	for i := 0; i < ch*frames; i++ {
		src.SetSample(i, float64(i-10)/8)
	}
	dst := Alloc[int16](Allocator{Channels: ch, Length: frames, Capacity: frames})
	udst := Alloc[uint16](Allocator{Channels: ch, Length: frames, Capacity: frames})
	for i := 0; i < ch*frames; i++ {
		dst.SetSample(i, 77)
		udst.SetSample(i, 77)
	}
	if n := FloatAsSigned(src.Slice(2, 7), dst.Slice(4, 8)); n != 4 {
		t.Errorf("window count %d", n)
	}
	if n := FloatAsUnsigned(src.Slice(2, 7), udst.Slice(4, 8)); n != 4 {
		t.Errorf("window count %d", n)
	}
	for i := 0; i < ch*frames; i++ {
		want, uwant := int64(77), uint64(77)
		if i >= 8 && i < 16 {
			want = r5cSigned(float64(i-4-10)/8, 16)
			uwant = r5cUnsigned(float64(i-4-10)/8, 16)
		}
		if int64(dst.Sample(i)) != want {
			t.Errorf("signed window: sample %d is %d, want %d", i, dst.Sample(i), want)
		}
		if uint64(udst.Sample(i)) != uwant {
			t.Errorf("unsigned window: sample %d is %d, want %d", i, udst.Sample(i), uwant)
		}
	}
	if dst.Len() != ch*frames || dst.Cap() != ch*frames || src.Len() != ch*frames {
		t.Errorf("len/cap changed")
	}
}

func r5cPanic(f func()) (v any) {
	defer func() { v = recover() }()
	f()
	return nil
}

func TestRefactor5C08Panics(t *testing.T) {
	src := Alloc[float32](Allocator{Channels: 2, Length: 2, Capacity: 2})
	for i := 0; i < 4; i++ {
		src.SetSample(i, 0.5)
	}
	dst := Alloc[int8](Allocator{Channels: 3, Length: 2, Capacity: 2})
	udst := Alloc[uint8](Allocator{Channels: 1, Length: 2, Capacity: 2})
	if v := r5cPanic(func() { FloatAsSigned(src, dst) }); v != any("different number of channels") {
		t.Errorf("signed: panic value %v", v)
	}
	if v := r5cPanic(func() { FloatAsUnsigned(src, udst) }); v != any("different number of channels") {
		t.Errorf("unsigned: panic value %v", v)
	}
	// the check comes before the emptiness test
	if v := r5cPanic(func() { FloatAsSigned(Alloc[float32](Allocator{Channels: 1}), dst) }); v != any("different number of channels") {
		t.Errorf("signed, empty: panic value %v", v)
	}
	for i := 0; i < dst.Len(); i++ {
		if dst.Sample(i) != 0 {
			t.Errorf("destination written before the panic")
		}
	}
	for i := 0; i < udst.Len(); i++ {
		if udst.Sample(i) != 0 {
			t.Errorf("destination written before the panic")
		}
	}
	if v := r5cPanic(func() { FloatAsSigned[float32, int8](nil, dst) }); v == nil {
		t.Errorf("nil source did not panic")
	}
	if v := r5cPanic(func() { FloatAsUnsigned[float32, uint8](src, nil) }); v == nil {
		t.Errorf("nil destination did not panic")
	}
}

// NaN results are unspecified, but they are what the documented
// expression gives on the platform at hand.
func TestRefactor5C08NaN(t *testing.T) {
	nan := math.NaN()
	nans := []float64{nan, -nan, math.Float64frombits(0x7ff0000000000001), math.Float64frombits(0xfff8000000000123)}
	for _, x := range nans {
		src := Alloc[float64](Allocator{Channels: 1, Length: 1, Capacity: 1})
		src.SetSample(0, x)
		d32 := Alloc[int32](Allocator{Channels: 1, Length: 1, Capacity: 1})
		d8 := Alloc[int8](Allocator{Channels: 1, Length: 1, Capacity: 1})
		d64 := Alloc[int64](Allocator{Channels: 1, Length: 1, Capacity: 1})
		u32 := Alloc[uint32](Allocator{Channels: 1, Length: 1, Capacity: 1})
		u64 := Alloc[uint64](Allocator{Channels: 1, Length: 1, Capacity: 1})
		FloatAsSigned(src, d32)
		FloatAsSigned(src, d8)
		FloatAsSigned(src, d64)
		FloatAsUnsigned(src, u32)
		FloatAsUnsigned(src, u64)
		m32, m8, m64 := int32(math.MaxInt32), int8(math.MaxInt8), int64(math.MaxInt64)
		if e := int32(x * (float64(m32) + 1)); d32.Sample(0) != e {
			t.Errorf("NaN %#x -> int32 %d, want %d", math.Float64bits(x), d32.Sample(0), e)
		}
		if e := int8(x * (float64(m8) + 1)); d8.Sample(0) != e {
			t.Errorf("NaN %#x -> int8 %d, want %d", math.Float64bits(x), d8.Sample(0), e)
		}
		if e := int64(x * (float64(m64) + 1)); d64.Sample(0) != e {
			t.Errorf("NaN %#x -> int64 %d, want %d", math.Float64bits(x), d64.Sample(0), e)
		}
		mu32, mu64 := uint32(math.MaxInt32), uint64(math.MaxInt64)
		if e := mu32 + 1 - uint32(-x*(float64(mu32)+1)); u32.Sample(0) != e {
			t.Errorf("NaN %#x -> uint32 %d, want %d", math.Float64bits(x), u32.Sample(0), e)
		}
		if e := mu64 + 1 - uint64(-x*(float64(mu64)+1)); u64.Sample(0) != e {
			t.Errorf("NaN %#x -> uint64 %d, want %d", math.Float64bits(x), u64.Sample(0), e)
		}
	}
}

func TestRefactor5C08Allocs(t *testing.T) {
	src := Alloc[float64](Allocator{Channels: 2, Length: 64, Capacity: 64})
	for i := 0; i < src.Len(); i++ {
		src.SetSample(i, float64(i-64)/50)
	}
	src32 := Alloc[float32](Allocator{Channels: 2, Length: 64, Capacity: 64})
	d := Alloc[int32](Allocator{Channels: 2, Length: 64, Capacity: 64})
	u := Alloc[uint64](Allocator{Channels: 2, Length: 64, Capacity: 64})
	if a := testing.AllocsPerRun(50, func() {
		FloatAsSigned(src, d)
		FloatAsUnsigned(src, u)
		FloatAsSigned(src32, d)
		FloatAsUnsigned(src32, u)
	}); a != 0 {
		t.Errorf("allocations: %v", a)
	}
}

// float64 bit patterns next to the boundaries of the classification:
// +-0, +-1, +-Inf, the smallest normal number, +-0.5, +-2 and a stride
// through all the exponents. NaN patterns are skipped here.
func TestRefactor5C08Float64Patterns(t *testing.T) {
	var in []float64
	add := func(bits uint64) {
		f := math.Float64frombits(bits)
		if f != f {
			return
		}
		in = append(in, f)
	}
	centres := []uint64{0, 0x3ff0000000000000, 0x7ff0000000000000, 0x0010000000000000, 0x3fe0000000000000, 0x4000000000000000,
		0x3ff8000000000000, 0x3fefffff00000000, 0x3ff0000100000000, 0x7fefffffffffff00, 0x4340000000000000, 0x43e0000000000000}
	for _, c := range centres {
		for d := uint64(0); d < 40; d++ {
			for _, s := range []uint64{0, 1 << 63} {
				add(s | (c + d))
				add(s | (c - d))
			}
		}
	}
	for e := uint64(0); e < 0x7ff; e++ {
		for _, m := range []uint64{0, 1, 0x8000000000000, 0xfffffffffffff} {
			add(e<<52 | m)
			add(1<<63 | e<<52 | m)
		}
	}
	rnd := rand.New(rand.NewSource(50803))
	for i := 0; i < 20000; i++ {
		add(rnd.Uint64())
		// in the neighbourhood of +-1
		add(rnd.Uint64()&(1<<63|1<<44-1) | 0x3fe0000000000000 + uint64(rnd.Intn(3))<<52 - 1<<43)
	}
	r5cAllSigned[float64](t, "float64", 1, len(in), in)
	r5cAllUnsigned[float64](t, "float64", 1, len(in), in)
	r5cAllSigned[r5cF64](t, "named float64", 3, len(in), in)
	r5cAllUnsigned[r5cF64](t, "named float64", 3, len(in), in)
	// what a float32 source makes of them
	r5cAllSigned[float32](t, "float32", 2, len(in), in)
	r5cAllUnsigned[float32](t, "float32", 2, len(in), in)
}

// Every float32 pattern of the two binades around +-1 and a finer stride
// through the rest.
func TestRefactor5C08Float32Dense(t *testing.T) {
	if testing.Short() {
		t.Skip("dense float32 sweep")
	}
	var in []float64
	for b := uint64(0); b < 1<<32; b += 4099 {
		f := math.Float32frombits(uint32(b))
		if f == f {
			in = append(in, float64(f))
		}
	}
	for _, s := range []uint32{0, 1 << 31} {
		for b := uint32(0x3f7f0000); b < 0x3f810000; b++ {
			in = append(in, float64(math.Float32frombits(s|b)))
		}
		for b := uint32(0x7f7ff000); b <= 0x7f800000; b++ {
			in = append(in, float64(math.Float32frombits(s|b)))
		}
	}
	r5cCheckSigned[float32, int8](t, "float32->int8", 1, len(in), in)
	r5cCheckSigned[float32, int32](t, "float32->int32", 1, len(in), in)
	r5cCheckSigned[float32, int64](t, "float32->int64", 1, len(in), in)
	r5cCheckUnsigned[float32, uint16](t, "float32->uint16", 1, len(in), in)
	r5cCheckUnsigned[float32, uint32](t, "float32->uint32", 1, len(in), in)
	r5cCheckUnsigned[float32, uint64](t, "float32->uint64", 1, len(in), in)
}
