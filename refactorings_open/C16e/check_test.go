package signal

import (
	"math"
	"math/big"
	"math/rand"
	"testing"
	"unsafe"

	"golang.org/x/exp/constraints"
)

// The expectations in this file are computed with math/big (depths 1..64)
// or written down as literal models (depth 0 and the out-of-contract depths
// 65..255), never with the shift expressions used by the library.

type r5c16Named int16
type r5c16NamedU uint32

func r5c16Pow2(n uint) *big.Int {
	return new(big.Int).Lsh(big.NewInt(1), n)
}

// r5c16Bounds returns the expected min signed, max signed and max unsigned
// value of a depth.
func r5c16Bounds(b int) (lo, hi, umax *big.Int) {
	switch {
	case b == 0:
		return big.NewInt(0), big.NewInt(0), big.NewInt(0)
	case b <= 64:
		lo = new(big.Int).Neg(r5c16Pow2(uint(b - 1)))
		hi = new(big.Int).Sub(r5c16Pow2(uint(b-1)), big.NewInt(1))
		umax = new(big.Int).Sub(r5c16Pow2(uint(b)), big.NewInt(1))
		return
	}
	// beyond the supported depths the unchanged library yields these
	// (shift counts of 64 and more give 0, subtraction wraps).
	return big.NewInt(0), big.NewInt(-1), new(big.Int).SetUint64(math.MaxUint64)
}

func r5c16SignedValues() []int64 {
	vals := []int64{math.MinInt64, math.MinInt64 + 1, math.MinInt64 + 2, math.MinInt64 + 3,
		math.MaxInt64, math.MaxInt64 - 1, math.MaxInt64 - 2, math.MaxInt64 - 3}
	for d := int64(-3); d <= 3; d++ {
		vals = append(vals, d)
		for k := uint(0); k < 63; k++ {
			p := int64(1) << k
			vals = append(vals, p+d, -p+d)
		}
	}
	rnd := rand.New(rand.NewSource(516))
	for i := 0; i < 300; i++ {
		v := int64(rnd.Uint64())
		vals = append(vals, v, v>>uint(rnd.Intn(64)))
	}
	return vals
}

func r5c16UnsignedValues() []uint64 {
	vals := []uint64{0, 1, 2, 3, math.MaxUint64, math.MaxUint64 - 1, math.MaxUint64 - 2, math.MaxUint64 - 3}
	for k := uint(0); k < 64; k++ {
		p := uint64(1) << k
		for d := uint64(0); d <= 3; d++ {
			vals = append(vals, p+d, p-d)
		}
	}
	rnd := rand.New(rand.NewSource(1605))
	for i := 0; i < 300; i++ {
		v := rnd.Uint64()
		vals = append(vals, v, v>>uint(rnd.Intn(64)))
	}
	return vals
}

func TestRefactor5C16Bounds(t *testing.T) {
	for b := 0; b < 256; b++ {
		d := BitDepth(b)
		lo, hi, umax := r5c16Bounds(b)
		if got := big.NewInt(d.MinSignedValue()); got.Cmp(lo) != 0 {
			t.Errorf("depth %d: MinSignedValue = %v, want %v", b, got, lo)
		}
		if got := big.NewInt(d.MaxSignedValue()); got.Cmp(hi) != 0 {
			t.Errorf("depth %d: MaxSignedValue = %v, want %v", b, got, hi)
		}
		if got := new(big.Int).SetUint64(d.MaxUnsignedValue()); got.Cmp(umax) != 0 {
			t.Errorf("depth %d: MaxUnsignedValue = %v, want %v", b, got, umax)
		}
	}
	// a few literal spot checks
	if BitDepth8.MaxSignedValue() != 127 || BitDepth8.MinSignedValue() != -128 || BitDepth8.MaxUnsignedValue() != 255 {
		t.Error("8 bit bounds")
	}
	if BitDepth24.MaxSignedValue() != 8388607 || BitDepth24.MinSignedValue() != -8388608 || BitDepth24.MaxUnsignedValue() != 16777215 {
		t.Error("24 bit bounds")
	}
	if BitDepth(1).MaxSignedValue() != 0 || BitDepth(1).MinSignedValue() != -1 || BitDepth(1).MaxUnsignedValue() != 1 {
		t.Error("1 bit bounds")
	}
	if MaxBitDepth.MaxSignedValue() != math.MaxInt64 || MaxBitDepth.MinSignedValue() != math.MinInt64 || MaxBitDepth.MaxUnsignedValue() != math.MaxUint64 {
		t.Error("64 bit bounds")
	}
}

func TestRefactor5C16SignedClip(t *testing.T) {
	vals := r5c16SignedValues()
	for b := 0; b < 256; b++ {
		d := BitDepth(b)
		lo, hi, _ := r5c16Bounds(b)
		for _, v := range vals {
			bv := big.NewInt(v)
			var want int64
			switch {
			case b > 64:
				// inverted range of the unchanged library: lower test first.
				if v < 0 {
					want = 0
				} else {
					want = -1
				}
			case bv.Cmp(lo) < 0:
				want = lo.Int64()
			case bv.Cmp(hi) > 0:
				want = hi.Int64()
			default:
				want = v
			}
			got := d.SignedValue(v)
			if got != want {
				t.Fatalf("depth %d: SignedValue(%d) = %d, want %d", b, v, got, want)
			}
			if b <= 64 {
				if again := d.SignedValue(got); again != got {
					t.Fatalf("depth %d: SignedValue not idempotent at %d: %d then %d", b, v, got, again)
				}
			}
		}
	}
	// order preservation on the supported depths
	for b := 1; b <= 64; b++ {
		d := BitDepth(b)
		for i := 1; i < len(vals); i++ {
			x, y := vals[i-1], vals[i]
			if x > y {
				x, y = y, x
			}
			if d.SignedValue(x) > d.SignedValue(y) {
				t.Fatalf("depth %d: order broken for %d <= %d", b, x, y)
			}
		}
	}
}

func TestRefactor5C16UnsignedClip(t *testing.T) {
	vals := r5c16UnsignedValues()
	for b := 0; b < 256; b++ {
		d := BitDepth(b)
		_, _, umax := r5c16Bounds(b)
		for _, v := range vals {
			want := v
			if new(big.Int).SetUint64(v).Cmp(umax) > 0 {
				want = umax.Uint64()
			}
			got := d.UnsignedValue(v)
			if got != want {
				t.Fatalf("depth %d: UnsignedValue(%d) = %d, want %d", b, v, got, want)
			}
			if again := d.UnsignedValue(got); again != got {
				t.Fatalf("depth %d: UnsignedValue not idempotent at %d", b, v)
			}
		}
		for i := 1; i < len(vals); i++ {
			x, y := vals[i-1], vals[i]
			if x > y {
				x, y = y, x
			}
			if d.UnsignedValue(x) > d.UnsignedValue(y) {
				t.Fatalf("depth %d: order broken for %d <= %d", b, x, y)
			}
		}
	}
}

// r5c16CheckScale compares Scale[T] with 2^(high-low) reduced to the width
// of T for every pair of depth bytes (the difference wraps in uint8 like the
// library's BitDepth subtraction does).
func r5c16CheckScale[T constraints.Integer](t *testing.T, name string) {
	var zero T
	width := uint(unsafe.Sizeof(zero)) * 8
	signed := ^zero < 0
	modulus := r5c16Pow2(width)
	for h := 0; h < 256; h++ {
		for l := 0; l < 256; l++ {
			n := uint(uint8(h - l))
			want := new(big.Int).Mod(r5c16Pow2(n), modulus)
			if signed && want.Bit(int(width-1)) == 1 {
				want.Sub(want, modulus)
			}
			g := Scale[T](BitDepth(h), BitDepth(l))
			var got *big.Int
			if signed {
				got = big.NewInt(int64(g))
			} else {
				got = new(big.Int).SetUint64(uint64(g))
			}
			if got.Cmp(want) != 0 {
				t.Fatalf("Scale[%s](%d, %d) = %v, want %v", name, h, l, got, want)
			}
			// the property proper: 2^(h-l) whenever it fits
			if h >= l && h <= 64 && l >= 1 {
				exact := r5c16Pow2(uint(h - l))
				fits := exact.BitLen() <= int(width) && (!signed || exact.BitLen() < int(width))
				if fits && got.Cmp(exact) != 0 {
					t.Fatalf("Scale[%s](%d, %d) = %v, want exact %v", name, h, l, got, exact)
				}
			}
		}
	}
}

func TestRefactor5C16Scale(t *testing.T) {
	r5c16CheckScale[int8](t, "int8")
	r5c16CheckScale[int16](t, "int16")
	r5c16CheckScale[int32](t, "int32")
	r5c16CheckScale[int64](t, "int64")
	r5c16CheckScale[int](t, "int")
	r5c16CheckScale[uint8](t, "uint8")
	r5c16CheckScale[uint16](t, "uint16")
	r5c16CheckScale[uint32](t, "uint32")
	r5c16CheckScale[uint64](t, "uint64")
	r5c16CheckScale[uint](t, "uint")
	r5c16CheckScale[uintptr](t, "uintptr")
	r5c16CheckScale[r5c16Named](t, "named int16")
	r5c16CheckScale[r5c16NamedU](t, "named uint32")

	if Scale[int64](BitDepth64, BitDepth8) != 1<<56 || Scale[int32](BitDepth32, BitDepth24) != 256 ||
		Scale[uint8](BitDepth8, BitDepth8) != 1 || Scale[uint64](BitDepth64, 1) != 1<<63 ||
		Scale[int64](BitDepth64, 1) != math.MinInt64 || Scale[int8](BitDepth64, BitDepth8) != 0 {
		t.Error("Scale literal spot checks")
	}
}

// r5c16Wrap reduces v to the width of T the way a Go integer conversion does.
func r5c16Wrap[T constraints.Integer](v *big.Int) T {
	var zero T
	width := uint(unsafe.Sizeof(zero)) * 8
	m := new(big.Int).Mod(v, r5c16Pow2(width))
	return T(m.Uint64())
}

func r5c16Big[T constraints.Integer](v T) *big.Int {
	var zero T
	if ^zero < 0 {
		return big.NewInt(int64(v))
	}
	return new(big.Int).SetUint64(uint64(v))
}

func r5c16Samples[T constraints.Integer]() []T {
	var zero T
	width := uint(unsafe.Sizeof(zero)) * 8
	var lo, hi T
	if ^zero < 0 {
		lo = T(1) << (width - 1)
		hi = ^lo
	} else {
		hi = ^zero
	}
	mid := hi/2 + 1
	return []T{0, 1, 2, 3, lo, lo + 1, lo + 2, hi, hi - 1, hi - 2, mid, mid - 1, mid + 1, mid + 2, hi / 3, lo / 3, 5, hi - hi/5, lo - lo/7}
}

// r5c16Requantise is an independent model of the four fixed-point
// conversions written with big integers.
func r5c16Requantise[S, D constraints.Integer](v S) D {
	var zs S
	var zd D
	sw := uint(unsafe.Sizeof(zs)) * 8
	dw := uint(unsafe.Sizeof(zd)) * 8
	srcSigned := ^zs < 0
	dstSigned := ^zd < 0
	x := r5c16Big(v)
	if !srcSigned && sw >= dw {
		// unsigned sources are downscaled in the unsigned source type:
		// the centring subtraction wraps and the division is unsigned.
		if dstSigned {
			x.Sub(x, r5c16Pow2(sw-1))
			x.Mod(x, r5c16Pow2(sw))
		}
		return r5c16Wrap[D](x.Div(x, r5c16Pow2(sw-dw)))
	}
	if !srcSigned {
		x.Sub(x, r5c16Pow2(sw-1)) // centre around zero
	}
	var y *big.Int
	if sw >= dw {
		y = new(big.Int).Quo(x, r5c16Pow2(sw-dw)) // truncated division
	} else {
		scale := r5c16Pow2(dw - sw)
		if x.Sign() > 0 {
			y = new(big.Int).Add(x, big.NewInt(1))
			y.Mul(y, scale)
			y.Sub(y, big.NewInt(1))
		} else {
			y = new(big.Int).Mul(x, scale)
		}
	}
	if !dstSigned {
		y.Add(y, r5c16Pow2(dw-1))
	}
	return r5c16Wrap[D](y)
}

func r5c16Convert[S, D constraints.Integer](t *testing.T, name string, conv func(*Buffer[S], *Buffer[D]) int) {
	samples := r5c16Samples[S]()
	channels := 2
	frames := (len(samples) + channels - 1) / channels
	src := Alloc[S](Allocator{Channels: channels, Length: 0, Capacity: frames})
	for _, s := range samples {
		src.AppendSample(s) // may leave a partial last frame
	}
	dst := Alloc[D](Allocator{Channels: channels, Length: frames + 1, Capacity: frames + 2})
	for i := 0; i < dst.Len(); i++ {
		dst.SetSample(i, 77)
	}
	n := conv(src, dst)
	if want := (len(samples) + channels - 1) / channels; n != want {
		t.Errorf("%s: returned %d, want %d", name, n, want)
	}
	for i, s := range samples {
		var zs S
		var zd D
		want := r5c16Requantise[S, D](s)
		if (^zs < 0) == (^zd < 0) && unsafe.Sizeof(zs) == unsafe.Sizeof(zd) {
			want = D(s)
		}
		if got := dst.Sample(i); got != want {
			t.Errorf("%s: sample %d (%v) -> %v, want %v", name, i, s, got, want)
		}
	}
	for i := len(samples); i < dst.Len(); i++ {
		if dst.Sample(i) != 77 {
			t.Errorf("%s: sample %d beyond the source was modified", name, i)
		}
	}
	if dst.Len() != channels*(frames+1) || dst.Cap() != channels*(frames+2) || src.Len() != len(samples) {
		t.Errorf("%s: shapes changed", name)
	}
}

func TestRefactor5C16Requantisation(t *testing.T) {
	r5c16Convert(t, "int8->int8", SignedAsSigned[int8, int8])
	r5c16Convert(t, "int8->int16", SignedAsSigned[int8, int16])
	r5c16Convert(t, "int8->int64", SignedAsSigned[int8, int64])
	r5c16Convert(t, "int16->int32", SignedAsSigned[int16, int32])
	r5c16Convert(t, "int64->int8", SignedAsSigned[int64, int8])
	r5c16Convert(t, "int32->int16", SignedAsSigned[int32, int16])
	r5c16Convert(t, "int64->int32", SignedAsSigned[int64, int32])
	r5c16Convert(t, "int->int16", SignedAsSigned[int, int16])
	r5c16Convert(t, "named->int64", SignedAsSigned[r5c16Named, int64])
	r5c16Convert(t, "uint8->uint64", UnsignedAsUnsigned[uint8, uint64])
	r5c16Convert(t, "uint64->uint8", UnsignedAsUnsigned[uint64, uint8])
	r5c16Convert(t, "uint16->uint32", UnsignedAsUnsigned[uint16, uint32])
	r5c16Convert(t, "uintptr->uint8", UnsignedAsUnsigned[uintptr, uint8])
	r5c16Convert(t, "uint32->namedU", UnsignedAsUnsigned[uint32, r5c16NamedU])
	r5c16Convert(t, "int8->uint16", SignedAsUnsigned[int8, uint16])
	r5c16Convert(t, "int64->uint8", SignedAsUnsigned[int64, uint8])
	r5c16Convert(t, "int32->uint32", SignedAsUnsigned[int32, uint32])
	r5c16Convert(t, "int16->uint64", SignedAsUnsigned[int16, uint64])
	r5c16Convert(t, "uint8->int32", UnsignedAsSigned[uint8, int32])
	r5c16Convert(t, "uint64->int16", UnsignedAsSigned[uint64, int16])
	r5c16Convert(t, "uint16->int16", UnsignedAsSigned[uint16, int16])
	r5c16Convert(t, "uint32->int64", UnsignedAsSigned[uint32, int64])
}

func TestRefactor5C16FloatEnds(t *testing.T) {
	// the float conversions take their multiplier from MaxSignedValue.
	src := Alloc[float64](Allocator{Channels: 1, Length: 5, Capacity: 5})
	for i, f := range []float64{1, -1, 0, 0.5, -0.5} {
		src.SetSample(i, f)
	}
	d16 := Alloc[int16](Allocator{Channels: 1, Length: 5, Capacity: 5})
	if n := FloatAsSigned(src, d16); n != 5 {
		t.Errorf("FloatAsSigned returned %d", n)
	}
	for i, want := range []int16{32767, -32768, 0, 16383, -16384} {
		if got := d16.Sample(i); got != want {
			t.Errorf("FloatAsSigned int16 sample %d = %d, want %d", i, got, want)
		}
	}
	d64 := Alloc[int64](Allocator{Channels: 1, Length: 5, Capacity: 5})
	FloatAsSigned(src, d64)
	if d64.Sample(0) != math.MaxInt64 || d64.Sample(1) != math.MinInt64 || d64.Sample(2) != 0 {
		t.Errorf("FloatAsSigned int64 ends: %d %d %d", d64.Sample(0), d64.Sample(1), d64.Sample(2))
	}
	u8 := Alloc[uint8](Allocator{Channels: 1, Length: 5, Capacity: 5})
	FloatAsUnsigned(src, u8)
	for i, want := range []uint8{255, 0, 128, 191, 64} {
		if got := u8.Sample(i); got != want {
			t.Errorf("FloatAsUnsigned uint8 sample %d = %d, want %d", i, got, want)
		}
	}
	back := Alloc[float64](Allocator{Channels: 1, Length: 5, Capacity: 5})
	SignedAsFloat(d16, back)
	for i, want := range []float64{1, -1, 0, 16383.0 / 32767.0, -0.5} {
		if got := back.Sample(i); got != want {
			t.Errorf("SignedAsFloat sample %d = %v, want %v", i, got, want)
		}
	}
}

var (
	r5c16SinkI int64
	r5c16SinkU uint64
)

func TestRefactor5C16NoAllocs(t *testing.T) {
	depths := []BitDepth{0, 1, 7, 8, 24, 63, 64, 65, 200}
	allocs := testing.AllocsPerRun(100, func() {
		for _, d := range depths {
			r5c16SinkI += d.MaxSignedValue() ^ d.MinSignedValue() ^ d.SignedValue(-5) ^ d.SignedValue(math.MaxInt64)
			r5c16SinkU += d.MaxUnsignedValue() ^ d.UnsignedValue(300) ^ d.UnsignedValue(math.MaxUint64)
			r5c16SinkI += Scale[int64](MaxBitDepth, d) + int64(Scale[int8](d, 3))
			r5c16SinkU += Scale[uint64](MaxBitDepth, d) + uint64(Scale[uintptr](d, 3))
		}
	})
	if allocs != 0 {
		t.Errorf("bit depth arithmetic allocates: %v", allocs)
	}
	src := Alloc[int32](Allocator{Channels: 2, Length: 16, Capacity: 16})
	dst := Alloc[int16](Allocator{Channels: 2, Length: 16, Capacity: 16})
	up := Alloc[int64](Allocator{Channels: 2, Length: 16, Capacity: 16})
	allocs = testing.AllocsPerRun(100, func() {
		SignedAsSigned(src, dst)
		SignedAsSigned(src, up)
	})
	if allocs != 0 {
		t.Errorf("SignedAsSigned allocates: %v", allocs)
	}
}

// TestRefactor5C16DenseSmallDepths sweeps every value of a dense window for
// the small depths, with bounds obtained by repeated doubling.
func TestRefactor5C16DenseSmallDepths(t *testing.T) {
	half := int64(1) // 2^(b-1)
	for b := 1; b <= 13; b++ {
		d := BitDepth(b)
		lo, hi, umax := -half, half-1, uint64(2*half-1)
		for v := int64(-9000); v <= 9000; v++ {
			want := v
			if v < lo {
				want = lo
			}
			if v > hi {
				want = hi
			}
			if got := d.SignedValue(v); got != want {
				t.Fatalf("depth %d: SignedValue(%d) = %d, want %d", b, v, got, want)
			}
			if v < 0 {
				continue
			}
			uwant := uint64(v)
			if uwant > umax {
				uwant = umax
			}
			if got := d.UnsignedValue(uint64(v)); got != uwant {
				t.Fatalf("depth %d: UnsignedValue(%d) = %d, want %d", b, v, got, uwant)
			}
		}
		half += half
	}
	// every neighbour of every bound, written with big integers
	for b := 1; b <= 64; b++ {
		d := BitDepth(b)
		lo, hi, umax := r5c16Bounds(b)
		for delta := int64(-4); delta <= 4; delta++ {
			for _, edge := range []*big.Int{lo, hi} {
				x := new(big.Int).Add(edge, big.NewInt(delta))
				if !x.IsInt64() {
					continue
				}
				want := x
				if x.Cmp(lo) < 0 {
					want = lo
				} else if x.Cmp(hi) > 0 {
					want = hi
				}
				if got := d.SignedValue(x.Int64()); got != want.Int64() {
					t.Fatalf("depth %d: SignedValue(%v) = %d, want %v", b, x, got, want)
				}
			}
			x := new(big.Int).Add(umax, big.NewInt(delta))
			if x.Sign() < 0 || !x.IsUint64() {
				continue
			}
			want := x
			if x.Cmp(umax) > 0 {
				want = umax
			}
			if got := d.UnsignedValue(x.Uint64()); got != want.Uint64() {
				t.Fatalf("depth %d: UnsignedValue(%v) = %d, want %v", b, x, got, want)
			}
		}
	}
}
