package signal

import (
	"math"
	"math/rand"
	"testing"
	"time"
)

// Out-of-range results saturate instead of going through Go's
// platform-dependent float-to-integer conversion (which yields the most
// negative integer on amd64).
func TestOpen12C03DiffersFrequencySaturates(t *testing.T) {
	const maxDuration = time.Duration(math.MaxInt64)
	durations := []struct {
		f      Frequency
		events int
		want   time.Duration
	}{
		{0, 1, maxDuration},           // +Inf
		{0, math.MaxInt, maxDuration}, // +Inf
		{1, math.MaxInt, maxDuration}, // ~9.2e27 ns on 64-bit, 2.1e18 on 32-bit
		{1e-12, 1 << 20, maxDuration}, // 1e27 ns
		{Frequency(math.SmallestNonzeroFloat64), 1, maxDuration},
		{0, 0, 0},                          // Inf*0 = NaN
		{Frequency(math.NaN()), 44100, 0},  // NaN
		{Frequency(math.Inf(1)), 44100, 0}, // exactly 0 either way
	}
	for _, c := range durations {
		if c.f == 1 && math.MaxInt == math.MaxInt32 {
			continue // fits time.Duration on 32-bit platforms
		}
		if got := c.f.Duration(c.events); got != c.want {
			t.Errorf("Frequency(%v).Duration(%d) = %d, want %d", float64(c.f), c.events, got, c.want)
		}
	}
	events := []struct {
		f    Frequency
		d    time.Duration
		want int
	}{
		{1e30, time.Hour, math.MaxInt},
		{Frequency(math.Inf(1)), time.Nanosecond, math.MaxInt},
		{Frequency(math.MaxFloat64), time.Second, math.MaxInt},
		{1e12, maxDuration, math.MaxInt},
		{Frequency(math.NaN()), time.Second, 0},
		{0, time.Hour, 0}, // exactly 0 either way
	}
	for _, c := range events {
		if got := c.f.Events(c.d); got != c.want {
			t.Errorf("Frequency(%v).Events(%d) = %d, want %d", float64(c.f), c.d, got, c.want)
		}
	}
	// saturation keeps both functions non-decreasing past the overflow point.
	prev := time.Duration(math.MinInt64)
	for n := 1; n > 0 && n < math.MaxInt/2; n *= 2 {
		d := Frequency(1e-9).Duration(n) // 1e18 ns per event
		if d < prev {
			t.Fatalf("Duration not monotone past overflow: n=%d gives %d after %d", n, d, prev)
		}
		prev = d
	}
}

var open12C03Rates = []Frequency{
	8000, 11025, 16000, 22050, 32000, 44100, 48000, 88200, 96000, 176400, 192000,
	352800, 384000, 2822400, 5644800, 1, 2, 3, 7, 999, 1000, 65537, 999983, 1e6,
	0.5, 0.1, 29.97, 59.94, 44100.5, 1.0 / 3,
}

// reference: the formulas of the unchanged library.
func open12C03OldDuration(f Frequency, events int) time.Duration {
	return time.Duration(math.Round(float64(time.Second) / float64(f) * float64(events)))
}

func open12C03OldEvents(f Frequency, d time.Duration) int {
	return int(math.Round(float64(f) / float64(time.Second) * float64(d)))
}

func open12C03Counts(f Frequency, rnd *rand.Rand) []int {
	limit := float64(f) * 86400
	if limit > math.MaxInt32-1 && math.MaxInt == math.MaxInt32 {
		limit = math.MaxInt32 - 1
	}
	max := int(limit)
	counts := []int{0, 1, 2, 3, max / 2, max - 1, max}
	for i := 0; i < 2000; i++ {
		counts = append(counts, rnd.Intn(max+1))
	}
	for i := 0; i < 200 && i <= max; i++ {
		counts = append(counts, i)
	}
	return counts
}

// C17: accuracy of both directions, identical to the previous formulas on
// the whole contract domain.
func TestOpen12C03KeepsFrequencyAccuracy(t *testing.T) {
	rnd := rand.New(rand.NewSource(12))
	for _, f := range open12C03Rates {
		for _, n := range open12C03Counts(f, rnd) {
			if n < 0 {
				continue
			}
			d := f.Duration(n)
			if d != open12C03OldDuration(f, n) {
				t.Fatalf("f=%v n=%d: Duration %d differs from previous %d", float64(f), n, d, open12C03OldDuration(f, n))
			}
			exact := float64(n) / float64(f) * 1e9
			if diff := math.Abs(float64(d) - exact); diff > 0.5+math.Abs(exact)*1e-15+1e-6 {
				t.Fatalf("f=%v n=%d: Duration %d is %g ns away from %g", float64(f), n, d, diff, exact)
			}
		}
		for i := 0; i < 3000; i++ {
			d := time.Duration(rnd.Int63n(int64(24*time.Hour) + 1))
			switch i {
			case 0:
				d = 0
			case 1:
				d = 24 * time.Hour
			case 2:
				d = time.Nanosecond
			}
			exact := float64(f) * d.Seconds()
			if exact > math.MaxInt32 && math.MaxInt == math.MaxInt32 {
				continue
			}
			e := f.Events(d)
			if e != open12C03OldEvents(f, d) {
				t.Fatalf("f=%v d=%d: Events %d differs from previous %d", float64(f), d, e, open12C03OldEvents(f, d))
			}
			if diff := math.Abs(float64(e) - exact); diff > 0.5+math.Abs(exact)*1e-15+1e-6 {
				t.Fatalf("f=%v d=%v: Events %d is %g away from %g", float64(f), d, e, diff, exact)
			}
		}
	}
}

// C17: both functions are non-decreasing, also near rounding ties.
func TestOpen12C03KeepsFrequencyMonotone(t *testing.T) {
	for _, f := range open12C03Rates {
		prev := time.Duration(-1)
		for n := 0; n < 5000; n++ {
			d := f.Duration(n)
			if d < prev {
				t.Fatalf("f=%v: Duration(%d)=%d < Duration(%d)=%d", float64(f), n, d, n-1, prev)
			}
			prev = d
		}
		// durations around the k+0.5 event ties
		period := float64(time.Second) / float64(f)
		prevE := -1
		for k := 0; k < 500; k++ {
			tie := time.Duration((float64(k) + 0.5) * period)
			if tie > 24*time.Hour {
				break
			}
			for off := time.Duration(-3); off <= 3; off++ {
				d := tie + off
				if d < 0 {
					continue
				}
				e := f.Events(d)
				if e < prevE {
					t.Fatalf("f=%v: Events(%d)=%d decreased from %d", float64(f), d, e, prevE)
				}
				prevE = e
			}
		}
	}
}

// C17: count -> duration -> count is the identity for rates up to 1 MHz and
// spans up to 24 hours.
func TestOpen12C03KeepsFrequencyRoundTrip(t *testing.T) {
	rnd := rand.New(rand.NewSource(3))
	for _, f := range open12C03Rates {
		if f > 1e6 {
			continue
		}
		for _, n := range open12C03Counts(f, rnd) {
			if got := f.Events(f.Duration(n)); got != n {
				t.Fatalf("f=%v: %d events -> %v -> %d events", float64(f), n, f.Duration(n), got)
			}
		}
	}
	for i := 0; i < 20000; i++ {
		f := Frequency(1 + rnd.Intn(1000000))
		limit := float64(f) * 86400
		if limit > math.MaxInt32-1 && math.MaxInt == math.MaxInt32 {
			limit = math.MaxInt32 - 1
		}
		n := rnd.Intn(int(limit) + 1)
		if got := f.Events(f.Duration(n)); got != n {
			t.Fatalf("f=%v: %d events -> %v -> %d events", float64(f), n, f.Duration(n), got)
		}
	}
}

// Negative in-range arguments (outside the contract) keep their old
// results too: only results that do not fit the integer type changed.
func TestOpen12C03KeepsFrequencyInRangeIdentity(t *testing.T) {
	rnd := rand.New(rand.NewSource(7))
	for i := 0; i < 20000; i++ {
		f := Frequency((rnd.Float64() - 0.3) * 200000)
		if f == 0 {
			continue
		}
		n := rnd.Intn(1<<31-1) - 1<<30
		if x := float64(time.Second) / float64(f) * float64(n); math.Abs(x) < 9e18 {
			if got, want := f.Duration(n), open12C03OldDuration(f, n); got != want {
				t.Fatalf("f=%v n=%d: %d != %d", float64(f), n, got, want)
			}
		}
		d := time.Duration(rnd.Int63n(int64(time.Hour))) - 30*time.Minute
		if x := float64(f) / float64(time.Second) * float64(d); math.Abs(x) < 2e9 {
			if got, want := f.Events(d), open12C03OldEvents(f, d); got != want {
				t.Fatalf("f=%v d=%d: %d != %d", float64(f), d, got, want)
			}
		}
	}
	if n := testing.AllocsPerRun(100, func() {
		_ = Frequency(44100).Duration(88200)
		_ = Frequency(44100).Events(time.Second)
	}); n != 0 {
		t.Fatalf("Frequency conversions allocate: %v", n)
	}
}
