package signal

import (
	"math"
	"math/rand"
	"testing"
)

// Floating-point values with a fraction are not representable in an integer
// element type, so C01 says nothing about them. Old: fraction cut off
// (toward zero). New: rounded to the nearest integer, halves away from zero.

func TestOpen13C12DiffersWriteRounds(t *testing.T) {
	b := Alloc[int16](Allocator{Channels: 1, Length: 6, Capacity: 6})
	Write([]float64{1.75, -1.75, 2.5, -2.5, 0.4, 2.9999999}, b)
	want := []int16{2, -2, 3, -3, 0, 3}
	for i, w := range want {
		if got := b.Sample(i); got != w {
			t.Errorf("Write: sample %d = %d, want %d", i, got, w)
		}
	}
}

func TestOpen13C12DiffersReadRounds(t *testing.T) {
	b := Alloc[float32](Allocator{Channels: 2, Length: 2, Capacity: 2})
	for i, v := range []float32{0.75, -0.75, 126.5, -99.5} {
		b.SetSample(i, v)
	}
	got := make([]int8, 4)
	Read(b, got)
	for i, w := range []int8{1, -1, 127, -100} {
		if got[i] != w {
			t.Errorf("Read: value %d = %d, want %d", i, got[i], w)
		}
	}
}

func TestOpen13C12DiffersStripedRounds(t *testing.T) {
	b := Alloc[uint8](Allocator{Channels: 2, Length: 2, Capacity: 2})
	WriteStriped([][]float64{{0.6, 1.5}, {254.7}}, b)
	for i, w := range []uint8{1, 255, 2, 0} {
		if got := b.Sample(i); got != w {
			t.Errorf("WriteStriped: position %d = %d, want %d", i, got, w)
		}
	}
	f := Alloc[float64](Allocator{Channels: 2, Length: 2, Capacity: 2})
	Write([]float64{0.6, 254.7, 1.5, 7.2}, f)
	got := [][]uint{make([]uint, 2), make([]uint, 2)}
	ReadStriped(f, got)
	if got[0][0] != 1 || got[0][1] != 2 || got[1][0] != 255 || got[1][1] != 7 {
		t.Errorf("ReadStriped: got %v, want [[1 2] [255 7]]", got)
	}
}

type (
	o13Float float32
	o13Int   int64
)

// keepsRoundTrip is C01 for one source/destination pair: whole values that
// both types represent are stored at channels*i+c and read back unchanged by
// both readers, only the first min(len) positions are touched, and the count
// includes a partly covered last frame.
func keepsRoundTrip[S, D SignalTypes](t *testing.T, name string, vals []S) {
	t.Helper()
	for channels := 1; channels <= 3; channels++ {
		frames := len(vals) / channels
		parent := Alloc[D](Allocator{Channels: channels, Length: frames + 2, Capacity: frames + 3})
		b := parent.Slice(1, frames+1)
		for i := 0; i < parent.Len(); i++ {
			parent.SetSample(i, 7)
		}
		// interleaved write of one sample less than the buffer holds.
		in := vals[:frames*channels]
		short := in
		if len(short) > 0 {
			short = short[:len(short)-1]
		}
		if got, want := Write(short, b), ChannelLength(len(short), channels); got != want {
			t.Fatalf("%s/%d: Write returned %d, want %d", name, channels, got, want)
		}
		for i := 0; i < parent.Len(); i++ {
			want := D(7)
			if k := i - channels; k >= 0 && k < len(short) {
				want = D(short[k])
			}
			if parent.Sample(i) != want {
				t.Fatalf("%s/%d: parent position %d = %v, want %v", name, channels, i, parent.Sample(i), want)
			}
		}
		if b.Length() != frames || b.Capacity() != frames+2 || parent.Length() != frames+2 {
			t.Fatalf("%s/%d: shape changed", name, channels)
		}
		// longer input than the buffer: only Len positions are written.
		long := append(append([]S{}, in...), in...)
		if got := Write(long, b); got != frames {
			t.Fatalf("%s/%d: Write(long) returned %d, want %d", name, channels, got, frames)
		}
		back := make([]S, len(in)+2)
		back[len(in)], back[len(in)+1] = 5, 5
		if got := Read(b, back); got != frames {
			t.Fatalf("%s/%d: Read returned %d, want %d", name, channels, got, frames)
		}
		for i := range in {
			if back[i] != in[i] || b.Sample(i) != D(in[i]) {
				t.Fatalf("%s/%d: value %d: wrote %v, stored %v, read %v", name, channels, i, in[i], b.Sample(i), back[i])
			}
		}
		if back[len(in)] != 5 || back[len(in)+1] != 5 {
			t.Fatalf("%s/%d: Read touched the caller's remaining elements", name, channels)
		}
		if parent.Sample(0) != 7 || parent.Sample(parent.Len()-1) != 7 {
			t.Fatalf("%s/%d: samples outside the window changed", name, channels)
		}
		// striped forms: uneven channels, the shorter ones are zero-filled.
		striped := make([][]S, channels)
		for c := range striped {
			for i := 0; i < frames-c && i < frames; i++ {
				striped[c] = append(striped[c], in[channels*i+c])
			}
		}
		if got := WriteStriped(striped, b); got != min(frames, len(striped[0])) {
			t.Fatalf("%s/%d: WriteStriped returned %d", name, channels, got)
		}
		out := make([][]S, channels)
		for c := range out {
			out[c] = make([]S, frames+1)
			out[c][frames] = 5
		}
		if got := ReadStriped(b, out); got != frames {
			t.Fatalf("%s/%d: ReadStriped returned %d, want %d", name, channels, got, frames)
		}
		for c := 0; c < channels; c++ {
			for i := 0; i < frames; i++ {
				var want S
				if i < len(striped[c]) {
					want = striped[c][i]
				}
				if out[c][i] != want || b.Sample(channels*i+c) != D(want) {
					t.Fatalf("%s/%d: channel %d sample %d = %v (stored %v), want %v", name, channels, c, i, out[c][i], b.Sample(channels*i+c), want)
				}
			}
			if out[c][frames] != 5 {
				t.Fatalf("%s/%d: ReadStriped touched the caller's remaining elements", name, channels)
			}
		}
	}
}

func TestOpen13C12KeepsC01RoundTrip(t *testing.T) {
	whole := []float64{0, 1, -1, 2, -2, 100, -100, 127, -128, 3, -3, 64}
	f32 := make([]float32, len(whole))
	named := make([]o13Float, len(whole))
	i64 := make([]int64, len(whole))
	for i, v := range whole {
		f32[i], named[i], i64[i] = float32(v), o13Float(v), int64(v)
	}
	keepsRoundTrip[float64, int8](t, "float64->int8", whole)
	keepsRoundTrip[float32, int16](t, "float32->int16", f32)
	keepsRoundTrip[float64, int](t, "float64->int", whole)
	keepsRoundTrip[o13Float, o13Int](t, "named->named", named)
	keepsRoundTrip[float64, float32](t, "float64->float32", whole)
	keepsRoundTrip[int64, float64](t, "int64->float64", i64)
	keepsRoundTrip[int64, int8](t, "int64->int8", i64)
	keepsRoundTrip[float64, float64](t, "float64->float64", append([]float64{0.5, -0.25, 1e-9}, whole...))
	big := []float64{1 << 52, -(1 << 53), 1 << 62, -(1 << 63), 1<<53 + 2, 4503599627370497}
	keepsRoundTrip[float64, int64](t, "float64->int64 big", big)
	ubig := []float64{1 << 63, 1<<64 - 2048, 1 << 40, 0, 255, 4294967295}
	keepsRoundTrip[float64, uint64](t, "float64->uint64 big", ubig)
	keepsRoundTrip[float32, uint32](t, "float32->uint32", []float32{0, 1 << 31, 4294967040, 16777215, 3, 9})
	keepsRoundTrip[float32, uint8](t, "float32->uint8", []float32{0, 255, 128, 1, 2, 3})
}

// Every whole value both types represent converts as before (random sweep).
func TestOpen13C12KeepsC01WholeValuesExact(t *testing.T) {
	rnd := rand.New(rand.NewSource(13))
	const n = 4096
	src := make([]float64, n)
	for i := range src {
		src[i] = float64(rnd.Int63n(1<<53) - 1<<52)
	}
	b := Alloc[int64](Allocator{Channels: 2, Length: n / 2, Capacity: n / 2})
	if Write(src, b) != n/2 {
		t.Fatal("Write count")
	}
	back := make([]float64, n)
	if Read(b, back) != n/2 {
		t.Fatal("Read count")
	}
	for i := range src {
		if b.Sample(i) != int64(src[i]) || back[i] != src[i] {
			t.Fatalf("value %d: %v stored as %d read as %v", i, src[i], b.Sample(i), back[i])
		}
	}
	// float buffers keep fractions, whatever the direction.
	f := Alloc[float32](Allocator{Channels: 1, Length: 3, Capacity: 3})
	Write([]float64{0.5, -1.25, math.Pi}, f)
	if f.Sample(0) != 0.5 || f.Sample(1) != -1.25 || f.Sample(2) != float32(math.Pi) {
		t.Fatalf("float destination changed: %v %v %v", f.Sample(0), f.Sample(1), f.Sample(2))
	}
}

// C12: views stay plain Go slices under a history of slicings, appends,
// single-sample appends and (cross-type, whole-valued) writes.
func TestOpen13C12KeepsC12Views(t *testing.T) {
	const channels = 2
	model := make([]int32, 0, 8*channels)
	root := Alloc[int32](Allocator{Channels: channels, Length: 0, Capacity: 8})
	type view struct {
		b *Buffer[int32]
		m []int32
	}
	views := []view{{root, model}}
	check := func(step string) {
		t.Helper()
		for k, v := range views {
			if v.b.Len() != len(v.m) {
				t.Fatalf("%s: view %d len %d, model %d", step, k, v.b.Len(), len(v.m))
			}
			for i := range v.m {
				if v.b.Sample(i) != v.m[i] {
					t.Fatalf("%s: view %d position %d = %d, model %d", step, k, i, v.b.Sample(i), v.m[i])
				}
			}
		}
	}
	rnd := rand.New(rand.NewSource(1312))
	for step := 0; step < 400; step++ {
		k := rnd.Intn(len(views))
		v := &views[k]
		switch rnd.Intn(5) {
		case 0: // slice
			if len(views) >= 6 || len(v.m)%channels != 0 {
				continue
			}
			capFrames := cap(v.m) / channels
			start := rnd.Intn(capFrames + 1)
			end := start + rnd.Intn(capFrames-start+1)
			views = append(views, view{v.b.Slice(start, end), v.m[start*channels : end*channels]})
		case 1: // single-sample append
			x := int32(rnd.Intn(1000))
			v.b.AppendSample(x)
			if len(v.m) < cap(v.m) {
				v.m = append(v.m, x)
			}
		case 2: // write whole float values
			in := make([]float64, rnd.Intn(6))
			for i := range in {
				in[i] = float64(rnd.Intn(2000) - 1000)
			}
			Write(in, v.b)
			for i := 0; i < len(in) && i < len(v.m); i++ {
				v.m[i] = int32(in[i])
			}
		case 3: // append a fresh frame-aligned buffer
			if len(v.m)%channels != 0 {
				continue
			}
			frames := rnd.Intn(3)
			src := Alloc[int32](Allocator{Channels: channels, Length: frames, Capacity: frames})
			vals := make([]float32, frames*channels)
			for i := range vals {
				vals[i] = float32(rnd.Intn(500))
			}
			Write(vals, src)
			grows := len(v.m)+len(vals) > cap(v.m)
			v.b.Append(src)
			if grows {
				// how much a growing append reserves is unspecified:
				// the model takes the new capacity from the library.
				fresh := make([]int32, len(v.m), v.b.Cap())
				copy(fresh, v.m)
				v.m = fresh
			}
			for _, x := range vals {
				v.m = append(v.m, int32(x))
			}
		case 4: // drop a view
			if len(views) > 1 && k > 0 {
				views = append(views[:k], views[k+1:]...)
			}
		}
		check("step")
	}
}

// C18: reads and writes do not allocate; C20: zero-length transfers return 0.
func TestOpen13C12KeepsC18C20(t *testing.T) {
	b := Alloc[int16](Allocator{Channels: 2, Length: 64, Capacity: 64})
	in := make([]float64, 128)
	out := make([]int32, 128)
	f := Alloc[float32](Allocator{Channels: 2, Length: 64, Capacity: 64})
	sin := [][]float32{make([]float32, 64), make([]float32, 10)}
	sout := [][]int64{make([]int64, 64), nil}
	if n := testing.AllocsPerRun(50, func() {
		Write(in, b)
		Read(b, out)
		Read(f, out)
		WriteStriped(sin, b)
		ReadStriped(f, sout)
	}); n != 0 {
		t.Fatalf("reads/writes allocate %v times", n)
	}
	var zero Allocator
	for _, a := range []Allocator{zero, {Channels: 2}, {Channels: 0, Length: 3, Capacity: 3}, {Channels: 2, Capacity: 4}} {
		e := Alloc[uint8](a)
		ef := Alloc[float64](a)
		if Write([]float64{1.5, 2.5}, e) != 0 || Read(ef, []int{9, 9}) != 0 || Write([]float64(nil), e) != 0 {
			t.Fatalf("%+v: transfer on an empty buffer returned non-zero", a)
		}
		striped := make([][]float64, a.Channels)
		ints := make([][]int, a.Channels)
		for c := range striped {
			striped[c], ints[c] = []float64{1.5}, []int{9}
		}
		if WriteStriped(striped, e) != 0 || ReadStriped(ef, ints) != 0 {
			t.Fatalf("%+v: striped transfer on an empty buffer returned non-zero", a)
		}
		for c := range ints {
			if ints[c][0] != 9 {
				t.Fatalf("%+v: ReadStriped touched the caller's slice", a)
			}
		}
	}
}

// C15: a wrong number of per-channel slices still panics before anything moves.
func TestOpen13C12KeepsC15Striped(t *testing.T) {
	b := Alloc[int8](Allocator{Channels: 2, Length: 2, Capacity: 2})
	Write([]int{1, 2, 3, 4}, b)
	panics := func(fn func()) (p bool) {
		defer func() { p = recover() != nil }()
		fn()
		return
	}
	src := [][]float64{{9.5, 9.5}, {9.5, 9.5}, {9.5, 9.5}}
	dst := [][]int{{7, 7}}
	if !panics(func() { WriteStriped(src, b) }) || !panics(func() { ReadStriped(b, dst) }) {
		t.Fatal("slice-count mismatch did not panic")
	}
	for i, w := range []int8{1, 2, 3, 4} {
		if b.Sample(i) != w {
			t.Fatalf("buffer modified at %d", i)
		}
	}
	if dst[0][0] != 7 || dst[0][1] != 7 {
		t.Fatal("caller's slice modified")
	}
}
