package signal

import (
	"reflect"
	"testing"
)

type open12C01Named int16

// open12C01Partial returns a 2-channel buffer of 2 frames capacity that
// holds three samples 1, 2, 3: its last frame is incomplete.
func open12C01Partial() *Buffer[int] {
	buf := Alloc[int](Allocator{Channels: 2, Length: 0, Capacity: 2})
	buf.AppendSample(1)
	buf.AppendSample(2)
	buf.AppendSample(3)
	return buf
}

func TestOpen12C01DiffersReadStripedPartialFrame(t *testing.T) {
	defer func() {
		if r := recover(); r != nil {
			t.Fatalf("ReadStriped on a buffer with an incomplete last frame panicked: %v", r)
		}
	}()
	buf := open12C01Partial()
	dst := [][]int{{-1, -1, -1}, {-1, -1, -1}}
	if n := ReadStriped(buf, dst); n != 2 {
		t.Fatalf("read %d frames, want 2", n)
	}
	want := [][]int{{1, 3, -1}, {2, -1, -1}}
	if !reflect.DeepEqual(dst, want) {
		t.Fatalf("got %v want %v", dst, want)
	}
	if buf.Len() != 3 || buf.Cap() != 4 {
		t.Fatalf("shape changed: len %d cap %d", buf.Len(), buf.Cap())
	}
}

func TestOpen12C01DiffersWriteStripedPartialFrame(t *testing.T) {
	defer func() {
		if r := recover(); r != nil {
			t.Fatalf("WriteStriped on a buffer with an incomplete last frame panicked: %v", r)
		}
	}()
	buf := open12C01Partial()
	if n := WriteStriped([][]int{{7, 8, 9}, {10, 11, 12}}, buf); n != 2 {
		t.Fatalf("wrote %d frames, want 2", n)
	}
	if buf.Len() != 3 || buf.Cap() != 4 {
		t.Fatalf("shape changed: len %d cap %d", buf.Len(), buf.Cap())
	}
	whole := buf.Slice(0, 2)
	for i, want := range []int{7, 10, 8, 0} {
		if got := whole.Sample(i); got != want {
			t.Fatalf("position %d: got %d want %d", i, got, want)
		}
	}
	// three channels, one sample: channels 1 and 2 hold nothing.
	one := Alloc[int8](Allocator{Channels: 3, Capacity: 1})
	one.AppendSample(5)
	if n := WriteStriped([][]int8{nil, {1}, {2}}, one); n != 1 {
		t.Fatalf("wrote %d frames, want 1", n)
	}
	if one.Len() != 1 || one.Sample(0) != 0 {
		t.Fatalf("len %d sample %d", one.Len(), one.Sample(0))
	}
}

func open12C01RoundTrip[T SignalTypes](t *testing.T, channels, length, capacity int) {
	t.Helper()
	parent := Alloc[T](Allocator{Channels: channels, Length: capacity + 2, Capacity: capacity + 3})
	for i := 0; i < parent.Len(); i++ {
		parent.SetSample(i, 99)
	}
	buf := parent.Slice(1, 1+length)
	if buf.Capacity() != capacity+2 {
		t.Fatalf("unexpected window capacity %d", buf.Capacity())
	}
	for _, inLen := range []int{0, 1, length - 1, length, length + 2} {
		if inLen < 0 {
			continue
		}
		for i := 0; i < parent.Len(); i++ {
			parent.SetSample(i, 99)
		}
		// uneven input: channel c is c samples shorter, the last channel is nil.
		in := make([][]T, channels)
		longest := 0
		for c := range in {
			if c == channels-1 && channels > 1 {
				continue
			}
			l := inLen - c
			if l < 0 {
				l = 0
			}
			in[c] = make([]T, l)
			for i := range in[c] {
				in[c][i] = T(1 + (c*7+i)%50)
			}
			if l > longest {
				longest = l
			}
		}
		covered := longest
		if covered > length {
			covered = length
		}
		if n := WriteStriped(in, buf); n != covered {
			t.Fatalf("ch %d len %d in %d: WriteStriped returned %d want %d", channels, length, inLen, n, covered)
		}
		if buf.Len() != channels*length || buf.Cap() != channels*(capacity+2) {
			t.Fatalf("shape changed")
		}
		for i := 0; i < parent.Length(); i++ {
			for c := 0; c < channels; c++ {
				want := T(99)
				if f := i - 1; f >= 0 && f < covered {
					want = 0
					if f < len(in[c]) {
						want = in[c][f]
					}
				}
				if got := parent.Sample(channels*i + c); got != want {
					t.Fatalf("ch %d len %d in %d: parent frame %d channel %d: got %v want %v", channels, length, inLen, i, c, got, want)
				}
			}
		}
		// striped read back, into slices longer and shorter than the buffer.
		out := make([][]T, channels)
		longest = 0
		for c := range out {
			if c == 0 && channels > 2 {
				continue // nil slice
			}
			out[c] = make([]T, length+2)
			if c%2 == 1 {
				out[c] = make([]T, length/2)
			}
			for i := range out[c] {
				out[c][i] = 77
			}
			if len(out[c]) > longest {
				longest = len(out[c])
			}
		}
		wantRead := longest
		if wantRead > length {
			wantRead = length
		}
		if n := ReadStriped(buf, out); n != wantRead {
			t.Fatalf("ReadStriped returned %d want %d", n, wantRead)
		}
		for c := range out {
			for i := range out[c] {
				want := T(77)
				if i < length {
					want = buf.Sample(channels*i + c)
				}
				if out[c][i] != want {
					t.Fatalf("ReadStriped channel %d index %d: got %v want %v", c, i, out[c][i], want)
				}
			}
		}
		// interleaved reader sees the same storage.
		flat := make([]T, channels*length+3)
		for i := range flat {
			flat[i] = 55
		}
		if n := Read(buf, flat); n != length {
			t.Fatalf("Read returned %d want %d", n, length)
		}
		for i := range flat {
			want := T(55)
			if i < channels*length {
				want = parent.Sample(channels + i)
			}
			if flat[i] != want {
				t.Fatalf("Read position %d: got %v want %v", i, flat[i], want)
			}
		}
	}
}

func TestOpen12C01KeepsStripedRoundTrip(t *testing.T) {
	for channels := 1; channels <= 4; channels++ {
		for length := 0; length <= 4; length++ {
			open12C01RoundTrip[int8](t, channels, length, length+1)
			open12C01RoundTrip[uint64](t, channels, length, length)
			open12C01RoundTrip[int64](t, channels, length, length+2)
			open12C01RoundTrip[uint](t, channels, length, length)
			open12C01RoundTrip[uintptr](t, channels, length, length)
			open12C01RoundTrip[float32](t, channels, length, length)
			open12C01RoundTrip[float64](t, channels, length, length+1)
			open12C01RoundTrip[open12C01Named](t, channels, length, length)
		}
	}
}

func TestOpen12C01KeepsInterleavedPartialFrameCount(t *testing.T) {
	buf := Alloc[int32](Allocator{Channels: 3, Length: 2, Capacity: 4})
	if n := Write([]float64{1, 2, 3, 4}, buf); n != 2 {
		t.Fatalf("Write returned %d want 2", n)
	}
	for i, want := range []int32{1, 2, 3, 4, 0, 0} {
		if buf.Sample(i) != want {
			t.Fatalf("position %d: got %d want %d", i, buf.Sample(i), want)
		}
	}
	out := []int16{9, 9, 9, 9, 9}
	if n := Read(buf, out[:4]); n != 2 {
		t.Fatalf("Read returned %d want 2", n)
	}
	if !reflect.DeepEqual(out, []int16{1, 2, 3, 4, 9}) {
		t.Fatalf("got %v", out)
	}
	// cross-type striped write and read of representable values.
	if n := WriteStriped([][]uint8{{10, 20}, {30}, nil}, buf); n != 2 {
		t.Fatalf("WriteStriped returned %d", n)
	}
	got := [][]float32{make([]float32, 2), make([]float32, 2), make([]float32, 2)}
	if n := ReadStriped(buf, got); n != 2 {
		t.Fatalf("ReadStriped returned %d", n)
	}
	if !reflect.DeepEqual(got, [][]float32{{10, 20}, {30, 0}, {0, 0}}) {
		t.Fatalf("got %v", got)
	}
}

func open12C01Panics(f func()) (panicked bool) {
	defer func() {
		panicked = recover() != nil
	}()
	f()
	return
}

func TestOpen12C01KeepsStripedMismatchRejected(t *testing.T) {
	for channels := 1; channels <= 4; channels++ {
		for slices := 0; slices <= 5; slices++ {
			if slices == channels {
				continue
			}
			buf := Alloc[int16](Allocator{Channels: channels, Length: 2, Capacity: 3})
			for i := 0; i < buf.Len(); i++ {
				buf.SetSample(i, int16(i+1))
			}
			in := make([][]int16, slices)
			out := make([][]int16, slices)
			for c := 0; c < slices; c++ {
				in[c] = []int16{-5, -6}
				out[c] = []int16{-7, -8}
			}
			if !open12C01Panics(func() { WriteStriped(in, buf) }) {
				t.Fatalf("WriteStriped %d slices into %d channels did not panic", slices, channels)
			}
			if !open12C01Panics(func() { ReadStriped(buf, out) }) {
				t.Fatalf("ReadStriped %d slices from %d channels did not panic", slices, channels)
			}
			if buf.Len() != 2*channels || buf.Cap() != 3*channels {
				t.Fatalf("shape changed")
			}
			for i := 0; i < buf.Len(); i++ {
				if buf.Sample(i) != int16(i+1) {
					t.Fatalf("buffer modified at %d", i)
				}
			}
			for c := 0; c < slices; c++ {
				if !reflect.DeepEqual(in[c], []int16{-5, -6}) || !reflect.DeepEqual(out[c], []int16{-7, -8}) {
					t.Fatalf("caller slices modified")
				}
			}
		}
	}
}

func TestOpen12C01KeepsInertAndZeroLength(t *testing.T) {
	for _, a := range []Allocator{{}, {Channels: 0, Length: 3, Capacity: 3}, {Channels: 2}, {Channels: 2, Length: 0, Capacity: 3}} {
		buf := Alloc[float64](a)
		in := make([][]float64, a.Channels)
		out := make([][]float64, a.Channels)
		for c := range in {
			in[c] = []float64{1, 2}
			out[c] = []float64{4, 4}
		}
		if n := WriteStriped(in, buf); n != 0 {
			t.Fatalf("%+v: WriteStriped returned %d", a, n)
		}
		if n := ReadStriped(buf, out); n != 0 {
			t.Fatalf("%+v: ReadStriped returned %d", a, n)
		}
		if n := Write([]int{1, 2}, buf); n != 0 {
			t.Fatalf("%+v: Write returned %d", a, n)
		}
		if n := Read(buf, []int{1, 2}); n != 0 {
			t.Fatalf("%+v: Read returned %d", a, n)
		}
		for c := range out {
			if !reflect.DeepEqual(out[c], []float64{4, 4}) {
				t.Fatalf("%+v: data transferred", a)
			}
		}
		if buf.Len() != 0 {
			t.Fatalf("%+v: length changed", a)
		}
		if a.Capacity > 0 && a.Channels > 0 {
			whole := buf.Slice(0, a.Capacity)
			for i := 0; i < whole.Len(); i++ {
				if whole.Sample(i) != 0 {
					t.Fatalf("%+v: write beyond length", a)
				}
			}
		}
	}
}

func TestOpen12C01KeepsNoAllocation(t *testing.T) {
	for channels := 1; channels <= 8; channels *= 2 {
		buf := Alloc[int64](Allocator{Channels: channels, Length: 64, Capacity: 64}).Slice(3, 40)
		in := make([][]float32, channels)
		out := make([][]int8, channels)
		for c := range in {
			in[c] = make([]float32, 30+c)
			out[c] = make([]int8, 45-c)
		}
		flat := make([]uint16, channels*20)
		if n := testing.AllocsPerRun(20, func() {
			WriteStriped(in, buf)
			ReadStriped(buf, out)
			Write(flat, buf)
			Read(buf, flat)
		}); n != 0 {
			t.Fatalf("%d channels: %v allocations", channels, n)
		}
	}
}
