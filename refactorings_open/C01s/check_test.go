package signal

import (
	"math"
	"sync"
	"testing"
)

type open13C01Int16 int16
type open13C01Float float32

// TestOpen13C01DiffersFloatToIntegerClips witnesses the change: floats that
// do not fit the integer destination are clipped by all four transfer
// functions (the unchanged library leaves them to the Go conversion, which
// wraps around on the tested platforms).
func TestOpen13C01DiffersFloatToIntegerClips(t *testing.T) {
	i8 := Alloc[int8](Allocator{Channels: 2, Length: 2, Capacity: 2})
	Write([]float64{300, -300, 128, -129}, i8)
	for i, want := range []int8{127, -128, 127, -128} {
		if got := i8.Sample(i); got != want {
			t.Errorf("Write float64->int8 sample %d: got %d want %d", i, got, want)
		}
	}
	u8 := Alloc[uint8](Allocator{Channels: 1, Length: 3, Capacity: 3})
	WriteStriped([][]float32{{-1, 256, 1e9}}, u8)
	for i, want := range []uint8{0, 255, 255} {
		if got := u8.Sample(i); got != want {
			t.Errorf("WriteStriped float32->uint8 sample %d: got %d want %d", i, got, want)
		}
	}
	f64 := Alloc[float64](Allocator{Channels: 1, Length: 4, Capacity: 4})
	Write([]float64{1e30, -1e30, math.Inf(1), math.Inf(-1)}, f64)
	out := make([]int64, 4)
	Read(f64, out)
	for i, want := range []int64{math.MaxInt64, math.MinInt64, math.MaxInt64, math.MinInt64} {
		if out[i] != want {
			t.Errorf("Read float64->int64 sample %d: got %d want %d", i, out[i], want)
		}
	}
	striped := [][]uint16{make([]uint16, 4)}
	ReadStriped(f64, striped)
	for i, want := range []uint16{math.MaxUint16, 0, math.MaxUint16, 0} {
		if striped[0][i] != want {
			t.Errorf("ReadStriped float64->uint16 sample %d: got %d want %d", i, striped[0][i], want)
		}
	}
}

func open13C01RoundTrip[S, D SignalTypes](t *testing.T, name string, vals []S) {
	t.Helper()
	const channels = 2
	frames := (len(vals) + channels - 1) / channels
	parent := Alloc[D](Allocator{Channels: channels, Length: frames + 2, Capacity: frames + 3})
	for i := 0; i < parent.Len(); i++ {
		parent.SetSample(i, 7)
	}
	buf := parent.Slice(1, 1+frames)
	// one element more than the buffer holds must stay unread.
	in := make([]S, 0, len(vals)+1)
	in = append(in, vals...)
	for len(in) < buf.Len()+1 {
		in = append(in, 1)
	}
	if n := Write(in, buf); n != frames {
		t.Fatalf("%s: Write returned %d want %d", name, n, frames)
	}
	for i := range vals {
		if got, want := buf.Sample(i), D(vals[i]); got != want {
			t.Errorf("%s: sample %d: got %v want %v", name, i, got, want)
		}
	}
	if buf.Len() != channels*frames || parent.Len() != channels*(frames+2) || parent.Cap() != channels*(frames+3) {
		t.Errorf("%s: shape changed", name)
	}
	for _, i := range []int{0, 1, parent.Len() - 2, parent.Len() - 1} {
		if parent.Sample(i) != 7 {
			t.Errorf("%s: sample %d outside the window modified", name, i)
		}
	}
	// interleaved read back into the source type.
	back := make([]S, buf.Len()+2)
	back[len(back)-1], back[len(back)-2] = 5, 5
	if n := Read(buf, back); n != frames {
		t.Fatalf("%s: Read returned %d want %d", name, n, frames)
	}
	for i := range vals {
		if back[i] != vals[i] {
			t.Errorf("%s: read back %d: got %v want %v", name, i, back[i], vals[i])
		}
	}
	if back[len(back)-1] != 5 || back[len(back)-2] != 5 {
		t.Errorf("%s: Read touched the rest of the slice", name)
	}
	// striped read agrees with the interleaved layout.
	str := [][]S{make([]S, frames+1), make([]S, frames)}
	str[0][frames] = 5
	if n := ReadStriped(buf, str); n != frames {
		t.Fatalf("%s: ReadStriped returned %d want %d", name, n, frames)
	}
	for i := range vals {
		if got := str[i%channels][i/channels]; got != vals[i] {
			t.Errorf("%s: striped read %d: got %v want %v", name, i, got, vals[i])
		}
	}
	if str[0][frames] != 5 {
		t.Errorf("%s: ReadStriped touched the rest of the slice", name)
	}
	// striped write of the same data gives the same buffer.
	other := Alloc[D](Allocator{Channels: channels, Length: frames, Capacity: frames})
	if n := WriteStriped([][]S{str[0][:frames], str[1]}, other); n != frames {
		t.Fatalf("%s: WriteStriped returned %d want %d", name, n, frames)
	}
	for i := 0; i < buf.Len(); i++ {
		if other.Sample(i) != buf.Sample(i) {
			t.Errorf("%s: striped write %d: got %v want %v", name, i, other.Sample(i), buf.Sample(i))
		}
	}
}

// TestOpen13C01KeepsRoundTrip exercises C01 for values representable in
// both element types, including the extreme values of integer destinations.
func TestOpen13C01KeepsRoundTrip(t *testing.T) {
	open13C01RoundTrip[float64, int8](t, "f64->i8", []float64{127, -128, 0, 1, -1, 126, -127, 64})
	open13C01RoundTrip[float32, int8](t, "f32->i8", []float32{127, -128, 0, 5})
	open13C01RoundTrip[float64, uint8](t, "f64->u8", []float64{255, 0, 1, 254, 128, 127})
	open13C01RoundTrip[float64, int16](t, "f64->i16", []float64{math.MaxInt16, math.MinInt16, 0, -1})
	open13C01RoundTrip[float64, uint16](t, "f64->u16", []float64{math.MaxUint16, 0, 1, 32768})
	open13C01RoundTrip[float64, int32](t, "f64->i32", []float64{math.MaxInt32, math.MinInt32, 0, -1})
	open13C01RoundTrip[float32, int32](t, "f32->i32", []float32{1<<31 - 128, -1 << 31, 0, 1 << 24})
	open13C01RoundTrip[float64, uint32](t, "f64->u32", []float64{math.MaxUint32, 0, 1 << 31, 1})
	open13C01RoundTrip[float64, int64](t, "f64->i64", []float64{1<<63 - 1024, -1 << 63, 1 << 53, -1 << 53, 0, 1})
	open13C01RoundTrip[float64, uint64](t, "f64->u64", []float64{1<<64 - 2048, 1 << 63, 0, 1})
	open13C01RoundTrip[float32, uint64](t, "f32->u64", []float32{1<<64 - 1<<40, 1 << 63, 0, 1})
	open13C01RoundTrip[float64, int](t, "f64->int", []float64{math.MaxInt32, math.MinInt32, 0, -1})
	open13C01RoundTrip[float64, uint](t, "f64->uint", []float64{math.MaxUint32, 0, 1})
	open13C01RoundTrip[float64, uintptr](t, "f64->uintptr", []float64{math.MaxUint32, 0, 1})
	open13C01RoundTrip[open13C01Float, open13C01Int16](t, "named", []open13C01Float{32767, -32768, 0, 3})
	open13C01RoundTrip[float64, float32](t, "f64->f32", []float64{0.5, -0.25, 0x1p100, -0x1p100})
	open13C01RoundTrip[float32, float64](t, "f32->f64", []float32{0.5, -0.25, 0x1p100, float32(math.Inf(1))})
	open13C01RoundTrip[int64, int64](t, "i64->i64", []int64{math.MaxInt64, math.MinInt64, 0, -1})
	open13C01RoundTrip[uint64, uint64](t, "u64->u64", []uint64{math.MaxUint64, 0, 1 << 63})
	open13C01RoundTrip[int8, float32](t, "i8->f32", []int8{127, -128, 0})
	open13C01RoundTrip[int32, int64](t, "i32->i64", []int32{math.MaxInt32, math.MinInt32, 0})
	open13C01RoundTrip[uint8, int16](t, "u8->i16", []uint8{255, 0, 128})
}

// TestOpen13C01KeepsStripedZeroFill: a striped writer zero-fills shorter,
// empty and nil channels up to the longest one and stops at the buffer
// length.
func TestOpen13C01KeepsStripedZeroFill(t *testing.T) {
	buf := Alloc[int16](Allocator{Channels: 3, Length: 3, Capacity: 4})
	for i := 0; i < buf.Len(); i++ {
		buf.SetSample(i, 9)
	}
	if n := WriteStriped([][]float64{{1, 2}, nil, {3}}, buf); n != 2 {
		t.Fatalf("WriteStriped returned %d", n)
	}
	want := []int16{1, 0, 3, 2, 0, 0, 9, 9, 9}
	for i, w := range want {
		if buf.Sample(i) != w {
			t.Errorf("sample %d: got %d want %d", i, buf.Sample(i), w)
		}
	}
	if n := WriteStriped([][]float64{{4, 5, 6, 7, 8}, {}, {1}}, buf); n != 3 {
		t.Fatalf("WriteStriped (long) returned %d", n)
	}
	want = []int16{4, 0, 1, 5, 0, 0, 6, 0, 0}
	for i, w := range want {
		if buf.Sample(i) != w {
			t.Errorf("long: sample %d: got %d want %d", i, buf.Sample(i), w)
		}
	}
	if buf.Len() != 9 || buf.Cap() != 12 {
		t.Errorf("shape changed: %d %d", buf.Len(), buf.Cap())
	}
	// a partly covered last frame counts.
	if n := Write([]float32{1, 2, 3, 4}, buf); n != 2 {
		t.Errorf("Write of 4 samples in 3 channels returned %d", n)
	}
	short := make([]int8, 4)
	if n := Read(buf, short); n != 2 {
		t.Errorf("Read of 4 samples in 3 channels returned %d", n)
	}
}

func open13C01Panics(f func()) (v interface{}) {
	defer func() { v = recover() }()
	f()
	return nil
}

// TestOpen13C01KeepsMismatchPanics covers C15 for the striped functions.
func TestOpen13C01KeepsMismatchPanics(t *testing.T) {
	buf := Alloc[int8](Allocator{Channels: 2, Length: 2, Capacity: 2})
	Write([]int8{1, 2, 3, 4}, buf)
	for slices := 0; slices <= 5; slices++ {
		if slices == 2 {
			continue
		}
		src := make([][]float64, slices)
		dst := make([][]float64, slices)
		for i := range src {
			src[i] = []float64{300, 300}
			dst[i] = []float64{42, 42}
		}
		if open13C01Panics(func() { WriteStriped(src, buf) }) == nil {
			t.Errorf("WriteStriped with %d slices did not panic", slices)
		}
		if open13C01Panics(func() { ReadStriped(buf, dst) }) == nil {
			t.Errorf("ReadStriped with %d slices did not panic", slices)
		}
		for i := 0; i < 4; i++ {
			if buf.Sample(i) != int8(i+1) {
				t.Errorf("buffer modified by a rejected WriteStriped")
			}
		}
		for i := range dst {
			if dst[i][0] != 42 || dst[i][1] != 42 || src[i][0] != 300 {
				t.Errorf("slices modified by a rejected call")
			}
		}
	}
}

// TestOpen13C01KeepsNoAllocation covers C18 for reads and writes.
func TestOpen13C01KeepsNoAllocation(t *testing.T) {
	i16 := Alloc[int16](Allocator{Channels: 2, Length: 64, Capacity: 64})
	f64 := Alloc[float64](Allocator{Channels: 2, Length: 64, Capacity: 64})
	u64 := Alloc[uint64](Allocator{Channels: 2, Length: 64, Capacity: 64})
	fs := make([]float64, 128)
	is := make([]int16, 128)
	us := make([]uint64, 128)
	fstr := [][]float64{make([]float64, 64), make([]float64, 64)}
	istr := [][]int16{make([]int16, 64), make([]int16, 64)}
	n := testing.AllocsPerRun(50, func() {
		Write(fs, i16)
		Write(is, f64)
		Write(fs, u64)
		Write(is, i16)
		Read(i16, fs)
		Read(f64, is)
		Read(f64, us)
		Read(u64, us)
		WriteStriped(fstr, i16)
		WriteStriped(istr, f64)
		ReadStriped(f64, istr)
		ReadStriped(i16, fstr)
	})
	if n != 0 {
		t.Errorf("reads and writes allocate: %v", n)
	}
}

// TestOpen13C01KeepsInert covers C20 for reads and writes.
func TestOpen13C01KeepsInert(t *testing.T) {
	for _, a := range []Allocator{{}, {Channels: 2}, {Length: 2, Capacity: 2}, {Channels: 2, Capacity: 3}} {
		buf := Alloc[int32](a)
		src := []float64{1e12, 2}
		dst := []int8{5, 5}
		if n := Write(src, buf); n != 0 {
			t.Errorf("%+v: Write returned %d", a, n)
		}
		if n := Read(buf, dst); n != 0 || dst[0] != 5 || dst[1] != 5 {
			t.Errorf("%+v: Read returned %d, slice %v", a, n, dst)
		}
		str := make([][]float64, a.Channels)
		for i := range str {
			str[i] = []float64{1e12}
		}
		if n := WriteStriped(str, buf); n != 0 {
			t.Errorf("%+v: WriteStriped returned %d", a, n)
		}
		if n := ReadStriped(buf, str); n != 0 {
			t.Errorf("%+v: ReadStriped returned %d", a, n)
		}
		for i := range str {
			if str[i][0] != 1e12 {
				t.Errorf("%+v: ReadStriped transferred a sample", a)
			}
		}
		if buf.Len() != 0 || buf.Length() != 0 {
			t.Errorf("%+v: buffer not empty", a)
		}
	}
}

// TestOpen13C01KeepsConcurrentReaders covers C19 for the readers.
func TestOpen13C01KeepsConcurrentReaders(t *testing.T) {
	buf := Alloc[float32](Allocator{Channels: 2, Length: 32, Capacity: 32})
	for i := 0; i < buf.Len(); i++ {
		buf.SetSample(i, float32(i-32))
	}
	var wg sync.WaitGroup
	for g := 0; g < 8; g++ {
		wg.Add(1)
		go func() {
			defer wg.Done()
			out := make([]int8, 64)
			str := [][]int16{make([]int16, 32), make([]int16, 32)}
			if Read(buf, out) != 32 || ReadStriped(buf, str) != 32 {
				t.Error("wrong count")
			}
			for i := range out {
				if out[i] != int8(i-32) || str[i%2][i/2] != int16(i-32) {
					t.Errorf("sample %d differs", i)
				}
			}
		}()
	}
	wg.Wait()
}
