package signal

import (
	"math"
	"math/rand"
	"sort"
	"testing"

	"golang.org/x/exp/constraints"
)

// Named element types: the contract quantifies over them as well.
type (
	open13C09Int16   int16
	open13C09Float32 float32
	open13C09Float64 float64
)

// open13C09SignedValues returns ascending, distinct test samples of S: every
// value for 8- and 16-bit types, boundary-dense and seeded random values for
// wider ones.
func open13C09SignedValues[S constraints.Signed]() []S {
	depth := getBitDepth[S]()
	lo, hi := depth.MinSignedValue(), depth.MaxSignedValue()
	var vals []int64
	if depth <= 16 {
		for v := lo; v <= hi; v++ {
			vals = append(vals, v)
		}
	} else {
		add := func(v int64) {
			if v >= lo && v <= hi {
				vals = append(vals, v)
			}
		}
		for d := int64(-3); d <= 3; d++ {
			add(d)
			add(lo + 3 + d)
			add(hi - 3 + d)
			for k := uint(1); k < uint(depth)-1; k++ {
				add(int64(1)<<k + d)
				add(-(int64(1) << k) + d)
				add(int64(3)<<(k-1) + d)
				add(-(int64(3) << (k - 1)) + d)
			}
		}
		rnd := rand.New(rand.NewSource(1309))
		for i := 0; i < 20000; i++ {
			add(int64(rnd.Uint64()) >> uint(rnd.Intn(int(depth))) >> (64 - uint(depth)))
		}
	}
	sort.Slice(vals, func(i, j int) bool { return vals[i] < vals[j] })
	out := make([]S, 0, len(vals))
	for i, v := range vals {
		if i == 0 || v != vals[i-1] {
			out = append(out, S(v))
		}
	}
	return out
}

func open13C09Fill[T SignalTypes](vals []T) *Buffer[T] {
	b := Alloc[T](Allocator{Channels: 1, Length: len(vals), Capacity: len(vals)})
	for i, v := range vals {
		b.SetSample(i, v)
	}
	return b
}

// open13C09Eps is the float rounding allowance of D relative to 1.
func open13C09Eps[D constraints.Float]() float64 {
	if getBitDepth[D]() == 32 {
		return 1.0 / (1 << 23)
	}
	return 1.0 / (1 << 52)
}

// open13C09CheckSigned checks everything C09 says about SignedAsFloat[S, D].
func open13C09CheckSigned[S constraints.Signed, D constraints.Float](t *testing.T, name string) {
	t.Helper()
	depth := getBitDepth[S]()
	vals := open13C09SignedValues[S]()
	src := open13C09Fill(vals)
	dst := Alloc[D](Allocator{Channels: 1, Length: len(vals), Capacity: len(vals)})
	if n := SignedAsFloat(src, dst); n != len(vals) {
		t.Fatalf("%s: returned %d, want %d", name, n, len(vals))
	}
	half := math.Ldexp(1, int(depth)-1)
	step := 1 / half
	wide := getBitDepth[D]() == 64
	for i, v := range vals {
		got := float64(dst.Sample(i))
		if got < -1 || got > 1 || got != got {
			t.Fatalf("%s: %d -> %v outside [-1,1]", name, v, got)
		}
		switch {
		case int64(v) == depth.MinSignedValue() && got != -1:
			t.Fatalf("%s: lowest code -> %v, want -1", name, got)
		case v == 0 && got != 0:
			t.Fatalf("%s: zero -> %v, want 0", name, got)
		case int64(v) == depth.MaxSignedValue() && got != 1:
			t.Fatalf("%s: highest code -> %v, want 1", name, got)
		}
		if want := float64(v) / half; math.Abs(got-want) > step+open13C09Eps[D]() {
			t.Fatalf("%s: %d -> %v, more than a step away from %v", name, v, got, want)
		}
		if src.Sample(i) != v {
			t.Fatalf("%s: source sample %d changed", name, i)
		}
		if i == 0 {
			continue
		}
		prev := float64(dst.Sample(i - 1))
		if got < prev {
			t.Fatalf("%s: order inverted between %d and %d", name, vals[i-1], v)
		}
		if wide && depth <= 32 && got == prev {
			t.Fatalf("%s: %d and %d give the same float64", name, vals[i-1], v)
		}
	}
	// round trip with the matching floating-to-fixed conversion.
	back := Alloc[S](Allocator{Channels: 1, Length: len(vals), Capacity: len(vals)})
	FloatAsSigned(dst, back)
	for i, v := range vals {
		diff := int64(back.Sample(i)) - int64(v)
		switch {
		case wide && depth <= 32 && diff != 0:
			t.Fatalf("%s: round trip %d -> %v -> %d", name, v, dst.Sample(i), back.Sample(i))
		case !wide && depth <= 16 && (diff < -1 || diff > 1):
			t.Fatalf("%s: round trip %d -> %v -> %d", name, v, dst.Sample(i), back.Sample(i))
		}
	}
	// Results that the change must not move at all: every float64 result, and
	// float32 results of sources that float32 holds exactly.
	if wide || depth <= 16 {
		msv := D(depth.MaxSignedValue())
		for i, v := range vals {
			want := D(v) / (msv + 1)
			if v > 0 {
				want = D(v) / msv
			}
			if dst.Sample(i) != want {
				t.Fatalf("%s: %d -> %v, want %v", name, v, dst.Sample(i), want)
			}
		}
	}
}

// C09 over all 10 instantiations of SignedAsFloat (named types on top).
func TestOpen13C09KeepsSignedAsFloatNormalises(t *testing.T) {
	open13C09CheckSigned[int8, float32](t, "int8/float32")
	open13C09CheckSigned[int8, float64](t, "int8/float64")
	open13C09CheckSigned[int16, float32](t, "int16/float32")
	open13C09CheckSigned[int16, float64](t, "int16/float64")
	open13C09CheckSigned[int32, float32](t, "int32/float32")
	open13C09CheckSigned[int32, float64](t, "int32/float64")
	open13C09CheckSigned[int64, float32](t, "int64/float32")
	open13C09CheckSigned[int64, float64](t, "int64/float64")
	open13C09CheckSigned[int, float32](t, "int/float32")
	open13C09CheckSigned[int, float64](t, "int/float64")
	open13C09CheckSigned[open13C09Int16, open13C09Float32](t, "named16/named32")
	open13C09CheckSigned[open13C09Int16, open13C09Float64](t, "named16/named64")
}

// open13C09Shape checks C05 (common prefix only, nothing else touched, return
// value), C15 (mismatch panics before modifying), C20 (empty buffers) and C18
// (no allocation) for one conversion.
func open13C09Shape[S constraints.Signed, D constraints.Float](t *testing.T, name string, conv func(*Buffer[S], *Buffer[D]) int) {
	t.Helper()
	const sentinel = 0.625
	for channels := 1; channels <= 3; channels++ {
		for srcLen := 0; srcLen <= 4; srcLen++ {
			for dstLen := 0; dstLen <= 4; dstLen++ {
				// both buffers are windows of larger ones.
				srcParent := Alloc[S](Allocator{Channels: channels, Length: 7, Capacity: 8})
				for i := 0; i < srcParent.Len(); i++ {
					srcParent.SetSample(i, S(i+1))
				}
				dstParent := Alloc[D](Allocator{Channels: channels, Length: 7, Capacity: 8})
				for i := 0; i < dstParent.Len(); i++ {
					dstParent.SetSample(i, sentinel)
				}
				src := srcParent.Slice(1, 1+srcLen)
				dst := dstParent.Slice(2, 2+dstLen)
				srcCap, dstCap := src.Cap(), dst.Cap()
				want := srcLen
				if dstLen < want {
					want = dstLen
				}
				if got := conv(src, dst); got != want {
					t.Fatalf("%s: %d channels, %d into %d frames: returned %d, want %d", name, channels, srcLen, dstLen, got, want)
				}
				if src.Len() != srcLen*channels || dst.Len() != dstLen*channels || src.Cap() != srcCap || dst.Cap() != dstCap {
					t.Fatalf("%s: shape changed", name)
				}
				for i := 0; i < srcParent.Len(); i++ {
					if srcParent.Sample(i) != S(i+1) {
						t.Fatalf("%s: source changed at %d", name, i)
					}
				}
				n := want * channels
				single := Alloc[D](Allocator{Channels: 1, Length: 1, Capacity: 1})
				for i := 0; i < dstParent.Len(); i++ {
					k := i - 2*channels
					if k < 0 || k >= n {
						if dstParent.Sample(i) != sentinel {
							t.Fatalf("%s: destination touched outside the prefix at %d", name, i)
						}
						continue
					}
					// position-wise: same result as converting that sample alone.
					conv(open13C09Fill([]S{src.Sample(k)}), single)
					if dstParent.Sample(i) != single.Sample(0) {
						t.Fatalf("%s: position %d depends on more than its own sample", name, k)
					}
				}
			}
		}
	}
	// C15: different channel counts panic, nothing modified.
	for sc := 1; sc <= 4; sc++ {
		for dc := 1; dc <= 4; dc++ {
			if sc == dc {
				continue
			}
			src := Alloc[S](Allocator{Channels: sc, Length: 2, Capacity: 3})
			for i := 0; i < src.Len(); i++ {
				src.SetSample(i, S(i+1))
			}
			dst := Alloc[D](Allocator{Channels: dc, Length: 2, Capacity: 3})
			for i := 0; i < dst.Len(); i++ {
				dst.SetSample(i, sentinel)
			}
			func() {
				defer func() {
					if recover() == nil {
						t.Fatalf("%s: %d into %d channels did not panic", name, sc, dc)
					}
				}()
				conv(src, dst)
			}()
			for i := 0; i < src.Len(); i++ {
				if src.Sample(i) != S(i+1) {
					t.Fatalf("%s: source modified by a rejected conversion", name)
				}
			}
			for i := 0; i < dst.Len(); i++ {
				if dst.Sample(i) != sentinel {
					t.Fatalf("%s: destination modified by a rejected conversion", name)
				}
			}
			if src.Len() != 2*sc || src.Cap() != 3*sc || dst.Len() != 2*dc || dst.Cap() != 3*dc {
				t.Fatalf("%s: shape modified by a rejected conversion", name)
			}
		}
	}
	// C20: zero-channel, zero-capacity and zero-length buffers.
	for _, a := range []Allocator{{}, {Channels: 2}, {Length: 2, Capacity: 2}, {Channels: 2, Capacity: 2}} {
		if got := conv(Alloc[S](a), Alloc[D](a)); got != 0 {
			t.Fatalf("%s: %+v returned %d, want 0", name, a, got)
		}
	}
	full := Allocator{Channels: 2, Length: 2, Capacity: 2}
	empty := Allocator{Channels: 2, Length: 0, Capacity: 2}
	dst := Alloc[D](full)
	dst.SetSample(0, sentinel)
	if got := conv(Alloc[S](empty), dst); got != 0 || dst.Sample(0) != sentinel {
		t.Fatalf("%s: empty source transferred something", name)
	}
	if got := conv(Alloc[S](full), Alloc[D](empty)); got != 0 {
		t.Fatalf("%s: empty destination returned %d", name, got)
	}
	// C18: no allocation.
	src := Alloc[S](Allocator{Channels: 2, Length: 512, Capacity: 512})
	out := Alloc[D](Allocator{Channels: 2, Length: 512, Capacity: 512})
	if allocs := testing.AllocsPerRun(20, func() { conv(src, out) }); allocs != 0 {
		t.Fatalf("%s: %v allocations per run", name, allocs)
	}
}

func TestOpen13C09KeepsShapeGuardsAndPrefix(t *testing.T) {
	open13C09Shape(t, "SignedAsFloat[int8,float32]", SignedAsFloat[int8, float32])
	open13C09Shape(t, "SignedAsFloat[int32,float32]", SignedAsFloat[int32, float32])
	open13C09Shape(t, "SignedAsFloat[int64,float64]", SignedAsFloat[int64, float64])
	open13C09Shape(t, "SignedAsFloat[int,float32]", SignedAsFloat[int, open13C09Float32])
	open13C09Shape(t, "SignedAsFloat[int16,float64]", SignedAsFloat[open13C09Int16, float64])
	open13C09Shape(t, "SignedAsFloat[int64,float32]", SignedAsFloat[int64, float32])
}

// With the change a float32 destination receives the correctly rounded
// quotient of a 32-bit sample; before it received the quotient of the sample
// already rounded to 24 bits, so 2^24 and 2^24+1 were indistinguishable.
func TestOpen13C09DiffersSignedFloat32KeepsLowBits(t *testing.T) {
	src := open13C09Fill([]int32{1 << 24, 1<<24 + 1})
	dst := Alloc[float32](Allocator{Channels: 1, Length: 2, Capacity: 2})
	SignedAsFloat(src, dst)
	if want := float32(float64(1<<24+1) / float64(math.MaxInt32)); dst.Sample(1) != want {
		t.Fatalf("2^24+1 -> %v, want the correctly rounded %v", dst.Sample(1), want)
	}
	if dst.Sample(0) >= dst.Sample(1) {
		t.Fatalf("2^24 and 2^24+1 are not told apart: %v %v", dst.Sample(0), dst.Sample(1))
	}
}

// C19: one buffer used as the conversion source by many goroutines gives each
// of them the sequential result.
func TestOpen13C09KeepsSharedSourceConcurrently(t *testing.T) {
	vals := open13C09SignedValues[int32]()
	src := open13C09Fill(vals)
	want := Alloc[float32](Allocator{Channels: 1, Length: len(vals), Capacity: len(vals)})
	SignedAsFloat(src, want)
	done := make(chan *Buffer[float32])
	for g := 0; g < 8; g++ {
		go func() {
			dst := Alloc[float32](Allocator{Channels: 1, Length: len(vals), Capacity: len(vals)})
			SignedAsFloat(src, dst)
			done <- dst
		}()
	}
	for g := 0; g < 8; g++ {
		dst := <-done
		for i := range vals {
			if dst.Sample(i) != want.Sample(i) {
				t.Fatalf("goroutine result differs at %d: %v != %v", i, dst.Sample(i), want.Sample(i))
			}
		}
	}
}
