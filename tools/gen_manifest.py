#!/usr/bin/env python3
"""Regenerates /verif/MANIFEST.json from the table below (claimed checks + not_applicable)."""
import json, sys
ENV = "GOFLAGS=-mod=mod GOPROXY=off GOSUMDB=off GOTOOLCHAIN=local GOWORK=off"
claimed = {
 "C01": ("symbolic summaries (go/ssa abstract interpretation, polynomial normal forms) of Write/Read/WriteStriped/ReadStriped compared with specification regions",
         "Decides for all lengths, windows and all 169 type pairs at once (type-parametric bodies): layout term channels*i+c, exact write/read regions over the first min(len,len) positions, zero fill, nothing else touched, returned frame count. Does not decide ceil through float64 beyond 2^53.", "4/C01"),
 "C02": ("symbolic summary of Buffer.Slice: header fields and the slice expression (two-index, unclamped operands), accessor normal forms",
         "Decides that the view is the Go two-index reslice data[channels*start:channels*end] of the same storage with copied channels/bitDepth, receiver untouched; Go slice semantics then give length, capacity, aliasing, composition and panics.", "4/C02"),
 "C03": ("path summaries of Buffer.Append: branch term, header post-state, copy region, alias-hazard (stale header) analysis, SetCap term",
         "Decides in-place vs grow branch term, the exact copy region, that the source header is not re-read after the destination header store (self-append), and that the final capacity is the storage capacity rounded down to whole frames and covers the new length (lemma for frame-aligned lengths stated in the evidence).", "4/C03"),
 "C04": ("path summaries of AppendSample with a relational fact domain (len/cap) proving the append in place",
         "Decides: full buffer no-op; otherwise exactly data[len] <- v, len+1, same storage, same cap.", "4/C04"),
 "C05": ("loop summaries of the nine conversions (canonical counting loops, per-iteration store, dependence of the kernel)",
         "Decides position-wise form on the common prefix, single store per iteration, kernel depends only on sample i and the two depths, nothing else written, return terms, FloatAsFloat kernel is a pure conversion.", "4/C05"),
 "C10": ("must-hold facts at the sync.Pool.Put call (header post-state, zeroed region, publication last) and flow rules for Get/New",
         "Decides the state of the object handed to the pool on every path (P1), that Get returns the pool item untouched (P2), that New allocates from the stored allocator (P3), no retention (P4). sync.Pool contract trusted.", "4/C10"),
 "C11": ("effect/ownership analysis of Get/Put/New (shared state table, publication-last, freshness obligations of C10)",
         "Decides the discipline that makes every schedule safe: only the *sync.Pool is shared, ownership is transferred by the final Pool.Put, New allocates per call. Does not produce a dynamic race verdict.", "4/C11"),
 "C12": ("who-may-write-a-header rule, derivation of stored slices, element-write base rule, no-leak rule over every function of the package, implied-bounds rule for Append/AppendSample",
         "Decides the structural necessary conditions of the slice-model argument (V1-V4) and that Append/AppendSample cannot panic where a plain slice would not, for arbitrary partial-frame lengths (V5); the induction over histories is a paper argument.", "4/C12"),
 "C13": ("symbolic summary of Alloc plus evaluation of getBitDepth per instantiation (13 built-in + 13 named types; thorough adds GOARCH=386)",
         "Decides make([]T, C*L, C*K) fresh and zeroed, channels, and the bit-depth table 8*sizeof(T) for every element type including named types.", "4/C13"),
 "C14": ("position terms of the channel view's reader, writer and index function compared with channels*i+c (sibling agreement)",
         "Decides the addressed parent position of C.Sample/C.SetSample/C.BufferIndex and the forwarders.", "4/C14"),
 "C15": ("guard dominance on path conditions: every effect is preceded by the equality of the two shape operands; a panic path exists for their inequality",
         "Decides for the 13 guarded entry points that the mismatch panics and that nothing is modified before the guard.", "4/C15"),
 "C18": ("allocation-site analysis over the symbolic paths of the 33 hot functions; thorough adds a compile-only escape-analysis cross-reference (go build -gcflags=-m of a generated witness)",
         "Decides absence of allocating constructs on non-panicking hot paths outside the view header, the growth branch and the varargs artefact; external callees within a frozen table.", "4/C18"),
 "C19": ("purity analysis of read paths and window confinement of writers over path summaries; package-level state table",
         "Decides the discipline that makes every schedule race-free (N1-N3). Does not produce a dynamic race verdict.", "4/C19"),
 "C20": ("division-guard rule plus re-summarisation of every entry point under degenerate entry states (len/cap/channels fixed to 0)",
         "Decides guarded divisions, zero results, empty regions and absence of unexpected panics on zero-length, zero-capacity and zero-channel buffers.", "4/C20"),
}
pending = {
}
try:
    extra = json.load(open('/verif/tools/manifest_extra.json'))
    claimed.update({k: tuple(v) for k, v in extra.get("claimed", {}).items()})
    pending.update(extra.get("pending", {}))
except FileNotFoundError:
    pass
props = [json.loads(l)["id"] for l in open('/verif/properties.jsonl')]
checks, na = [], []
for p in props:
    if p in claimed:
        tech, text, ref = claimed[p]
        checks.append({
            "property_id": p,
            "quick_cmd": f"bin/sigcheck -prop {p} -tier quick",
            "thorough_cmd": f"bin/sigcheck -prop {p} -tier thorough",
            "evidence_file": f"/verif/evidence/{p}.json",
            "replay_cmd_template": f"VERIF_VERBOSE=1 bin/sigcheck -prop {p} -tier quick  # replay file {{path}} names the rule and construct",
            "engine": "sigcheck",
            "level_claimed": {"category": "other", "text": "static analysis: " + text, "design_ref": "DESIGN.md section " + ref},
            "level_note": "trusted: go/types + go/ssa (x/tools v0.29.0) SSA construction, Go specification semantics; the checker's transfer functions (DESIGN appendix C). Assumes no int overflow in index arithmetic.",
            "technique": tech,
        })
    else:
        na.append({"property_id": p, "reason": pending.get(p, "check not yet built in this commit (static rule designed in DESIGN.md section 4; under construction)")})
m = {"version": 1,
     "setup_cmd": f"cd /verif/checker && {ENV} go build -o /verif/bin/sigcheck .",
     "hooks": {"guard": "verif", "enable": "none: static analysis reads the source of /repo's working tree; no hooks or instrumentation are committed", "baseline_off_cmd": "cd /repo && go test -vet=off -count=1 ./...", "source_commits": [], "add_only": True},
     "engines": [{"name": "sigcheck", "path": "/verif/checker", "serves_properties": sorted(claimed), "kind_free_text": "repository-specific static analyzer: symbolic interpreter over go/ssa (path summaries, loop summaries, polynomial normal forms), numeric abstract interpreter per instantiation, allocation-site analysis, compile-only escape cross-reference"}],
     "checks": checks,
     "not_applicable": na,
     "notes": "All checks are static (no code of pipelined/signal is executed). Known findings: /verif/known_findings.json (D8 known; D1-D7 and D9 fixed in /repo). Self-test of the checker (not a property check): ./selftest.sh [-seeded] [-refactorings] over /verif/mutants (breaking and benign patches), /verif/seeded (239 independent breaking changes, each reported by its own property's check), /verif/refactorings (392 property-preserving edits: refactorings, correct feature additions and behaviour changes no property forbids, all checks silent), /verif/refactorings_open (8 documented limitations); tools/mutsweep.py is the single-token mutation sweep of DESIGN.md 8.11."}
json.dump(m, open('/verif/MANIFEST.json', 'w'), indent=1)
print(len(checks), "checks;", len(na), "not applicable")
