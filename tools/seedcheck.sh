#!/bin/bash
# seedcheck.sh <outdir-variant> [props]  -- confirm a seeded change (patch.diff + demo_test.go) and run the checks against it.
export GOFLAGS=-mod=mod GOPROXY=off GOSUMDB=off GOTOOLCHAIN=local GOWORK=off
src=$(realpath $1); shift
props="$@"; [ -z "$props" ] && props=$(seq -f "C%02g" 1 20)
RACE=${RACE:-}
d=$(mktemp -d /tmp/sigseed-XXXX); v=$(mktemp -d /tmp/sigseedv-XXXX)
cp -r /repo/. $d/ ; rm -rf $d/.git; cp /verif/known_findings.json $v/
# 1. demo passes on the unchanged library
cp $src/demo_test.go $d/zz_seed_demo_test.go
base=$(cd $d && GOARCH=${DEMOARCH:-amd64} go test $RACE -count=1 -run 'TestSeed' . 2>&1 | tail -1)
rm $d/zz_seed_demo_test.go
# 2. patch applies, builds, vets, suite passes
if ! (cd $d && patch -s -p1 < $src/patch.diff); then echo "PATCH FAILED"; rm -rf $d $v; exit 9; fi
fmtout=$(cd $d && gofmt -l . | tr '\n' ' ')
b=$(cd $d && go build ./... 2>&1 | head -3; go vet ./... 2>&1 | head -3)
suite=$(cd $d && go test -vet=off -count=1 ./... 2>&1 | tail -1)
# 3. demo fails with the patch
cp $src/demo_test.go $d/zz_seed_demo_test.go
demo=$(cd $d && GOARCH=${DEMOARCH:-amd64} go test $RACE -count=1 -run 'TestSeed' . 2>&1 | grep -m3 -- "--- FAIL\|^FAIL\|^ok\|panic:" | tr '\n' '|')
rm $d/zz_seed_demo_test.go
echo "unchanged+demo: $base"
echo "patched: gofmt=[$fmtout] build/vet=[$b] suite: $suite"
echo "patched+demo: $demo"
fired=""
for p in $props; do
  out=$(VERIF_REPO=$d VERIF_DIR=$v ${SIGCHECK:-/verif/bin/sigcheck} -prop $p 2>&1); rc=$?
  if [ $rc -ne 0 ]; then fired="$fired $p"; echo "--- $p rc=$rc"; echo "$out" | grep "^REFUTED\|^UNDECIDED" -A1 | grep -v "^--" | cut -c1-${WIDTH:-300} | head -${LINES_MAX:-4}; fi
done
echo "FIRED:$fired"
rm -rf $d $v
