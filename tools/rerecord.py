#!/usr/bin/env python3
"""rerecord.py <seeded-id>... : re-run tools/seedcheck.sh on /verif/seeded/<id> (as stored) and refresh the
checks_that_report_it / first_obligation_per_check / confirmed fields of its meta.json."""
import sys, os, subprocess, json, re
for sid in sys.argv[1:]:
    d = f"/verif/seeded/{sid}"
    meta = json.load(open(d + "/meta.json"))
    env = dict(os.environ)
    cmd = meta["confirmed"].get("command", "")
    if "-race" in cmd:
        env["RACE"] = "-race"
    if "DEMOARCH=386" in cmd or "386" in meta.get("demo_arch", ""):
        env["DEMOARCH"] = "386"
    out = subprocess.run(["/verif/tools/seedcheck.sh", d], capture_output=True, text=True, env=env).stdout
    lines = out.splitlines()
    get = lambda p: next((l[len(p):].strip() for l in lines if l.startswith(p)), "")
    fired = get("FIRED:").split()
    first, cur = {}, None
    for l in lines:
        m = re.match(r"--- (C\d+) rc=", l)
        if m: cur = m.group(1); continue
        if cur and cur not in first and (l.startswith("REFUTED") or l.startswith("UNDECIDED")) and "boundary@code=1" not in l:
            first[cur] = " ".join(l.split()[:3])
    ok_unchanged = get("unchanged+demo:").startswith("ok")
    suite_ok = "suite: ok" in get("patched:")
    demo_fails = "FAIL" in get("patched+demo:") or "panic" in get("patched+demo:")
    meta["confirmed"].update({"demo_passes_on_unchanged_tree": ok_unchanged, "existing_suite_passes_with_change": suite_ok, "demo_fails_with_change": demo_fails})
    meta["checks_that_report_it"] = fired
    meta["first_obligation_per_check"] = first
    meta["detected_by_own_property_check"] = meta["property"] in fired
    json.dump(meta, open(d + "/meta.json", "w"), indent=1)
    print(sid, "confirmed" if (ok_unchanged and suite_ok and demo_fails) else "NOT CONFIRMED", "fired:", " ".join(fired))
