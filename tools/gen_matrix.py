#!/usr/bin/env python3
"""Rewrites the seeded-change catch matrix in DESIGN.md (between the matrix markers) from seeded/*/meta.json."""
import json, glob, re
rows = []
tot = own = 0
for f in sorted(glob.glob('/verif/seeded/*/meta.json')):
    m = json.load(open(f))
    readme = open(f.replace('meta.json', 'README.md')).read().strip().splitlines()
    title = next((l.lstrip('# ').strip() for l in readme if l.strip()), '')
    title = re.sub(r'^C\d+ variant [a-f]:\s*', '', title)
    title = re.sub(r'^Variant [a-f]\s*[-—:]*\s*', '', title)
    tot += 1
    own += bool(m['detected_by_own_property_check'])
    rows.append(f"| {m['property']}{m['variant']} | {m.get('wave', 1)} | {title[:95]} | {' '.join(m['checks_that_report_it'])} |")
block = "<!-- matrix:begin -->\n| seed | wave | change (title of its README) | reported by |\n|---|---|---|---|\n" + "\n".join(rows) + f"\n\n{tot} seeded changes, all reported; {own} of them by the check of the property they were written against.\n<!-- matrix:end -->"
p = '/verif/DESIGN.md'
s = open(p).read()
if '<!-- matrix:begin -->' in s:
    s = re.sub(r'<!-- matrix:begin -->.*?<!-- matrix:end -->', lambda _: block, s, flags=re.S)
else:
    # first time: replace the old table
    s = re.sub(r'\| seed \| change \(title of its README\) \| reported by \|\n\|---\|---\|---\|\n(?:\|.*\|\n)+', lambda _: block + "\n", s)
open(p, 'w').write(s)
print(tot, own)
