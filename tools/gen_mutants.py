#!/usr/bin/env python3
"""Generates the self-test corpus /verif/mutants/m*.patch from /repo's current tree by literal replacement.
Each entry: (name, expected properties, [(file, old, new), ...])."""
import subprocess, os, tempfile, shutil, sys, json
M = [
 ("m03_read_count_from_dst", ["C01"], [("signal.go", "	return ChannelLength(length, src.Channels())", "	return ChannelLength(len(dst), src.Channels())")]),
 ("m04_channellength_floor", ["C01"], [("signal.go", "	return int(math.Ceil(float64(sliceLen) / float64(channels)))", "	return sliceLen / channels")]),
 ("m05_slice_three_index", ["C02"], [("buffer.go", "data:     b.data[start:end],", "data:     b.data[start:end:end],")]),
 ("m06_slice_copies", ["C02", "C18"], [("buffer.go", "data:     b.data[start:end],", "data:     append([]T(nil), b.data[start:end]...),")]),
 ("m07_slice_clamps_end", ["C02"], [("buffer.go", "	end = b.BufferIndex(0, end)\n", "	end = b.BufferIndex(0, end)\n	if end > len(b.data) {\n		end = len(b.data)\n	}\n")]),
 ("m08_append_branch_le", ["C03", "C18"], [("buffer.go", "	if dst.Cap() < offset+length {", "	if dst.Cap() <= offset+length {")]),
 ("m09_append_always_grows", ["C03", "C18"], [("buffer.go", "	if dst.Cap() < offset+length {\n		dst.data = append(dst.data, make([]D, length)...)\n	} else {\n		dst.data = dst.data[:offset+length]\n	}", "	dst.data = append(dst.data[:offset:offset], make([]D, length)...)")]),
 ("m10_append_rereads_len", ["C03"], [("buffer.go", "	for i := 0; i < length; i++ {\n		dst.SetSample(i+offset, src.Sample(i))", "	for i := 0; i < src.Len(); i++ {\n		dst.SetSample(i+offset, src.Sample(i))")]),
 ("m11_align_up", ["C03", "C12"], [("signal.go", "aligned := c - c%channels;", "aligned := c + (channels-c%channels)%channels;")]),
 ("m50_trim_below_length", ["C12"], [("signal.go", "	v := reflect.ValueOf(s).Elem()\n	if aligned := c - c%channels; aligned >= v.Len() {\n		v.SetCap(aligned)\n	}", "	reflect.ValueOf(s).Elem().SetCap(c - c%channels)")]),
 ("m51_trim_guard_strict", ["C03"], [("signal.go", "aligned >= v.Len()", "aligned > v.Len()")]),
 ("m12_appendsample_no_guard", ["C04", "C18"], [("buffer.go", "	if len(b.data) == cap(b.data) {\n		return\n	}\n	b.data = append(b.data, v)", "	b.data = append(b.data, v)")]),
 ("m13_appendsample_guard_off_by_one", ["C04"], [("buffer.go", "	if len(b.data) == cap(b.data) {\n		return\n	}\n	b.data = append(b.data, v)", "	if len(b.data) == cap(b.data)-1 {\n		return\n	}\n	b.data = append(b.data, v)")]),
 ("m14_conv_length_from_src", ["C05"], [("signal.go", "func SignedAsFloat[S constraints.Signed, D constraints.Float](src *Buffer[S], dst *Buffer[D]) int {\n	mustSame(src.Channels(), dst.Channels(), diffChannels)\n	// cap length to destination capacity.\n	length := min(src.Len(), dst.Len())", "func SignedAsFloat[S constraints.Signed, D constraints.Float](src *Buffer[S], dst *Buffer[D]) int {\n	mustSame(src.Channels(), dst.Channels(), diffChannels)\n	// cap length to destination capacity.\n	length := min(src.Len(), dst.Cap())")]),
 ("m16_returns_sample_count", ["C05"], [("signal.go", "			dst.SetSample(i, D(sample)*scale)\n		}\n	}\n	return min(src.Length(), dst.Length())", "			dst.SetSample(i, D(sample)*scale)\n		}\n	}\n	return length")]),
 ("m22_clamp_gt_one", ["C08"], [("signal.go", "		case f >= 1:\n			sample = msv\n", "		case f > 1:\n			sample = msv\n")]),
 ("m24_positive_multiplier", ["C08"], [("signal.go", "			sample = D(f * float64(msv))\n		default:\n			sample = D(f * (float64(msv) + 1))", "			sample = D(f * (float64(msv) + 1))\n		default:\n			sample = D(f * (float64(msv) + 1))")]),
 ("m25_signedasfloat_one_divisor", ["C09"], [("signal.go", "			dst.SetSample(i, D(sample)/msv)\n		} else {\n			dst.SetSample(i, D(sample)/(msv+1))", "			dst.SetSample(i, D(sample)/(msv+1))\n		} else {\n			dst.SetSample(i, D(sample)/(msv+1))")]),
 ("m27_put_clears_len_only", ["C10", "C11"], [("pool.go", "	b.data = b.data[:cap(b.data)]\n	b.clear()", "	b.clear()")]),
 ("m28_put_restores_zero_len", ["C10", "C11"], [("pool.go", "	b.data = b.data[:p.alloc.Channels*p.alloc.Length]", "	b.data = b.data[:0]")]),
 ("m29_new_returns_shared_buffer", ["C10", "C11"], [("pool.go", "func PoolAlloc[T SignalTypes](a Allocator) PoolAllocator[T] {\n	return PoolAllocator[T]{", "func PoolAlloc[T SignalTypes](a Allocator) PoolAllocator[T] {\n	first := Alloc[T](a)\n	return PoolAllocator[T]{"), ("pool.go", "				return Alloc[T](a)", "				if first != nil {\n					b := first\n					first = nil\n					return b\n				}\n				return Alloc[T](a)")]),
 ("m30_get_counter", ["C11"], [("pool.go", "	pool  *sync.Pool\n	alloc Allocator\n}", "	pool  *sync.Pool\n	alloc Allocator\n	gets  int\n}"), ("pool.go", "func (p *PoolAllocator[T]) Get() *Buffer[T] {\n", "func (p *PoolAllocator[T]) Get() *Buffer[T] {\n	p.gets++\n")]),
 ("m31_clear_after_pool_put", ["C11", "C10"], [("pool.go", "	b.data = b.data[:cap(b.data)]\n	b.clear()\n	b.data = b.data[:p.alloc.Channels*p.alloc.Length]\n	p.pool.Put(b)", "	p.pool.Put(b)\n	b.data = b.data[:cap(b.data)]\n	b.clear()\n	b.data = b.data[:p.alloc.Channels*p.alloc.Length]")]),
 ("m32_parent_pointer", ["C12"], [("buffer.go", "	data []T\n	bitDepth\n}", "	data []T\n	bitDepth\n	parent *Buffer[T]\n}"), ("buffer.go", "		bitDepth: b.bitDepth,\n	}\n}\n\n// AppendSample", "		bitDepth: b.bitDepth,\n		parent:   b,\n	}\n}\n\n// AppendSample"), ("buffer.go", "	b.data = append(b.data, v)\n}", "	b.data = append(b.data, v)\n	if b.parent != nil && len(b.parent.data) < len(b.data) {\n		b.parent.data = b.parent.data[:len(b.data)]\n	}\n}")]),
 ("m33_alloc_length_not_scaled", ["C13"], [("allocator.go", "make([]T, a.Channels*a.Length, a.Channels*a.Capacity)", "make([]T, a.Length, a.Channels*a.Capacity)")]),
 ("m35_view_setsample_swapped", ["C14"], [("channel.go", "c.Buffer.SetSample(c.Buffer.BufferIndex(c.channel, index), s)", "c.Buffer.SetSample(c.Buffer.BufferIndex(index, c.channel), s)")]),
 ("m36_channel_copies_header", ["C14"], [("buffer.go", "	return C[T]{\n		Buffer:  b,", "	cp := *b\n	return C[T]{\n		Buffer:  &cp,")]),
 ("m37_guard_deleted", ["C15"], [("signal.go", "func UnsignedAsFloat[S constraints.Unsigned, D constraints.Float](src *Buffer[S], dst *Buffer[D]) int {\n	mustSame(src.Channels(), dst.Channels(), diffChannels)\n", "func UnsignedAsFloat[S constraints.Unsigned, D constraints.Float](src *Buffer[S], dst *Buffer[D]) int {\n")]),
 ("m38_guard_after_effects", ["C15"], [("signal.go", "func WriteStriped[S, D SignalTypes](src [][]S, dst *Buffer[D]) (written int) {\n	mustSame(dst.Channels(), len(src), diffChannels)\n", "func WriteStriped[S, D SignalTypes](src [][]S, dst *Buffer[D]) (written int) {\n	if len(src) > 0 && len(src[0]) > 0 && dst.Len() > 0 {\n		dst.SetSample(0, D(src[0][0]))\n	}\n	mustSame(dst.Channels(), len(src), diffChannels)\n")]),
 ("m39_put_guard_per_channel", ["C15"], [("pool.go", "mustSame(p.alloc.Capacity*p.alloc.Channels, b.Cap(), diffCapacity)", "mustSame(p.alloc.Capacity, b.Capacity(), diffCapacity)")]),
 ("m44_eager_panic_message", ["C18"], [("signal.go", "import (\n	\"math\"", "import (\n	\"fmt\"\n	\"math\""), ("signal.go", "func Write[S, D SignalTypes](src []S, dst *Buffer[D]) int {\n	length := min(dst.Len(), len(src))", "func Write[S, D SignalTypes](src []S, dst *Buffer[D]) int {\n	mustSame(true, true, fmt.Sprintf(\"%s: %d\", diffChannels, dst.Channels()))\n	length := min(dst.Len(), len(src))")]),
 ("m45_readstriped_temp_slice", ["C18"], [("signal.go", "		for i := 0; i < length; i++ {\n			dst[c][i] = D(src.Sample(src.BufferIndex(c, i)))\n		}", "		tmp := make([]D, length)\n		for i := 0; i < length; i++ {\n			tmp[i] = D(src.Sample(src.BufferIndex(c, i)))\n		}\n		copy(dst[c], tmp)")]),
 ("m46_length_memoised", ["C19"], [("buffer.go", "	data []T\n	bitDepth\n}", "	data []T\n	bitDepth\n	lastLen, lastLength int\n}"), ("buffer.go", "	return int(math.Ceil(float64(len(b.data)) / float64(b.channels)))", "	if b.lastLen != len(b.data) || b.lastLength == 0 {\n		b.lastLen, b.lastLength = len(b.data), int(math.Ceil(float64(len(b.data))/float64(b.channels)))\n	}\n	return b.lastLength")]),
 ("m47_package_scratch", ["C19"], [("signal.go", "func min(v1, v2 int) int {", "var lastRead int\n\nfunc min(v1, v2 int) int {"), ("signal.go", "	return ChannelLength(length, src.Channels())", "	lastRead = length\n	return ChannelLength(length, src.Channels())")]),
 ("m48_length_guard_removed", ["C20"], [("buffer.go", "func (b *Buffer[T]) Length() int {\n	if b.channels == 0 {\n		return 0\n	}\n", "func (b *Buffer[T]) Length() int {\n")]),
 ("m49_early_exit_other_length", ["C05", "C20"], [("signal.go", "func SignedAsUnsigned[S constraints.Signed, D constraints.Unsigned](src *Buffer[S], dst *Buffer[D]) int {\n	mustSame(src.Channels(), dst.Channels(), diffChannels)\n	// cap length to destination capacity.\n	length := min(src.Len(), dst.Len())\n	if length == 0 {\n		return 0", "func SignedAsUnsigned[S constraints.Signed, D constraints.Unsigned](src *Buffer[S], dst *Buffer[D]) int {\n	mustSame(src.Channels(), dst.Channels(), diffChannels)\n	// cap length to destination capacity.\n	length := min(src.Len(), dst.Len())\n	if length == 0 {\n		return src.Length()")]),
]
expected = {}
for name, props, edits in M:
    d = tempfile.mkdtemp(prefix='/tmp/sigmk-')
    subprocess.run(f"cp -r /repo/. {d}/ && rm -rf {d}/.git && cp -r {d} {d}.orig", shell=True)
    ok = True
    for f, old, new in edits:
        p = d + '/' + f
        s = open(p).read()
        if old not in s:
            print("PATTERN NOT FOUND", name, f, repr(old[:60])); ok = False; break
        open(p, 'w').write(s.replace(old, new, 1))
    if ok:
        subprocess.run(f"cd {d} && gofmt -w *.go", shell=True)
        b = subprocess.run(f"cd {d} && GOFLAGS=-mod=mod GOPROXY=off go build ./... 2>&1 | head -3", shell=True, capture_output=True, text=True).stdout
        if b.strip():
            print("DOES NOT BUILD", name, b.strip()[:200]); ok = False
    if ok:
        out = subprocess.run(f"cd /tmp && diff -ruN {os.path.basename(d)}.orig {os.path.basename(d)} | sed 's#{os.path.basename(d)}.orig/#a/#; s#{os.path.basename(d)}/#b/#'", shell=True, capture_output=True, text=True).stdout
        open(f'/verif/mutants/{name}.patch', 'w').write(out)
        expected[name] = props
    shutil.rmtree(d); shutil.rmtree(d + '.orig')
json.dump(expected, open('/verif/mutants/expected_gen.json', 'w'), indent=1)
print(len(expected), "mutants written")
