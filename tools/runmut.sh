#!/bin/bash
# runmut.sh <patch> <prop>...  -- apply patch to a scratch copy of /repo, run tests and the given checks there
export GOFLAGS=-mod=mod GOPROXY=off GOSUMDB=off GOTOOLCHAIN=local GOWORK=off
patch=$(realpath $1); shift
d=$(mktemp -d /tmp/sigmut-XXXX)
cp -r /repo/. $d/ ; rm -rf $d/.git
if ! (cd $d && patch -s -p1 < $patch); then echo "PATCH FAILED"; rm -rf $d; exit 9; fi
if ! (cd $d && go build ./... 2>&1 | head -5); then echo "BUILD FAILED"; fi
t=$(cd $d && go test -vet=off -count=1 ./... 2>&1 | tail -1)
echo "tests: $t"
for p in "$@"; do
  out=$(VERIF_REPO=$d VERIF_DIR=${VERIF_DIR:-/tmp/sigmut-verif} ${SIGCHECK:-/verif/bin/sigcheck} -prop $p 2>&1); rc=$?
  echo "--- $p rc=$rc"; echo "$out" | grep -v "^VIOLATION\|^==" | head -${LINES_MAX:-12}
done
rm -rf $d
