#!/usr/bin/env python3
"""record_seed.py <Cxx> <variant> : confirm a sub-agent's seeded change and store it under /verif/seeded/<Cxx><variant>/"""
import sys, os, subprocess, json, shutil, re
prop, var = sys.argv[1], sys.argv[2]
wave = sys.argv[3] if len(sys.argv) > 3 else "1"
src = f"/tmp/seed/out_{prop}/{var}" if wave == "1" else f"/tmp/seed/out{wave}_{prop}/{var}"
name = var if wave == "1" else {"2": {"a": "c", "b": "d"}, "4": {"a": "e", "b": "f"}, "6": {"a": "g", "b": "h"}, "10": {"a": "i", "b": "j"}, "14": {"a": "k", "b": "l"}}[wave][var]
dst = f"/verif/seeded/{prop}{name}"
env = dict(os.environ)
if "-race" in open(src + "/README.md").read() and not os.environ.get("NORACE"):
    env["RACE"] = "-race"
out = subprocess.run(["/verif/tools/seedcheck.sh", src], capture_output=True, text=True, env=env).stdout
lines = out.splitlines()
get = lambda p: next((l[len(p):].strip() for l in lines if l.startswith(p)), "")
fired = get("FIRED:").split()
ok_unchanged = get("unchanged+demo:").startswith("ok")
suite_ok = "suite: ok" in get("patched:")
demo_fails = "FAIL" in get("patched+demo:") or "panic" in get("patched+demo:")
confirmed = ok_unchanged and suite_ok and demo_fails
os.makedirs(dst, exist_ok=True)
for f in ("patch.diff", "demo_test.go", "README.md"):
    shutil.copy(src + "/" + f, dst + "/" + f)
readme = open(src + "/README.md").read()
first = {}
cur = None
for l in lines:
    m = re.match(r"--- (C\d+) rc=", l)
    if m: cur = m.group(1); continue
    if cur and cur not in first and (l.startswith("REFUTED") or l.startswith("UNDECIDED")) and "boundary@code=1" not in l:
        first[cur] = " ".join(l.split()[:3])
meta = {
 "property": prop, "variant": name, "wave": int(wave),
 "origin": "independent sub-agent given only the property text and its own scratch worktree of /repo (no access to /verif)",
 "needs_to_manifest": readme.strip().splitlines()[:40],
 "confirmed": {"demo_passes_on_unchanged_tree": ok_unchanged, "existing_suite_passes_with_change": suite_ok, "demo_fails_with_change": demo_fails,
               "command": "tools/seedcheck.sh seeded/%s%s  (scratch copy of /repo under /tmp, removed afterwards%s)" % (prop, name, ("; demo run with -race" if env.get("RACE") else "") + ("; DEMOARCH=386" if env.get("DEMOARCH") == "386" else ""))},
 "checks_that_report_it": fired,
 "first_obligation_per_check": first,
 "detected_by_own_property_check": prop in fired,
}
json.dump(meta, open(dst + "/meta.json", "w"), indent=1)
print(prop + name, "confirmed" if confirmed else "NOT CONFIRMED", "fired:", " ".join(fired))
