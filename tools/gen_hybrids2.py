#!/usr/bin/env python3
"""gen_hybrids2.py: hybrids h17-h27 = an idiom the checker learnt to accept in waves 12/13 (explicit growth policy,
explicit bounds checks, validating constructors, rate guards, NaN handling) combined with a bug. Each must still be
reported by the check named in mutants/expected.json. Writes mutants/h17..h27_*.patch from /repo's current sources."""
import os, subprocess, tempfile, shutil, json

REPO = "/repo"
OUT = "/verif/mutants"

GROW_OK = '''	if dst.Cap() < offset+length {
		grown := make([]D, offset+length, growCapacity(dst.Cap(), offset+length, dst.Channels()))
		copy(grown, dst.data)
		dst.data = grown
	} else {'''
GROW_HELPER = '''
// growCapacity returns the capacity of the storage Append moves to: the larger of twice the current capacity and the
// required length, rounded up to whole frames.
func growCapacity(current, required, channels int) int {
	c := 2 * current
	if c < required {
		c = required
	}
	if channels > 0 {
		if tail := c % channels; tail != 0 {
			c += channels - tail
		}
	}
	return c
}
'''
OLD_GROW = '''	if dst.Cap() < offset+length {
		dst.data = append(dst.data, make([]D, length)...)
	} else {'''

def edits():
    yield ("h17_growth_not_whole_frames", "explicit growth policy (8.15) + bug: the capacity is not rounded to whole frames and the trim is gone", ["C03"],
           [("buffer.go", OLD_GROW, GROW_OK.replace("growCapacity(dst.Cap(), offset+length, dst.Channels())", "2*dst.Cap()+offset+length")),
            ("buffer.go", "	alignCapacity(&dst.data, dst.Channels(), dst.Cap())\n}", "}")])
    yield ("h18_growth_drops_old_contents", "explicit growth policy + bug: the old contents are not copied to the new storage", ["C03"],
           [("buffer.go", OLD_GROW, GROW_OK.replace("		copy(grown, dst.data)\n", "")), ("buffer.go", None, GROW_HELPER)])
    yield ("h19_growth_copies_shifted", "explicit growth policy + bug: the old contents land one position late", ["C03"],
           [("buffer.go", OLD_GROW, GROW_OK.replace("copy(grown, dst.data)", "copy(grown[1:], dst.data)")), ("buffer.go", None, GROW_HELPER)])
    yield ("h20_growth_too_small", "explicit growth policy + bug: the policy rounds DOWN to whole frames, below the required length for a partial frame... and for aligned buffers one frame short", ["C03"],
           [("buffer.go", OLD_GROW, GROW_OK), ("buffer.go", None, GROW_HELPER.replace("			c += channels - tail", "			c -= tail + channels"))])
    yield ("h21_slice_check_stricter_than_go", "explicit bounds check in Slice (8.15) + bug: it also rejects windows that end beyond the length but inside the capacity", ["C02"],
           [("buffer.go", "	end = b.BufferIndex(0, end)\n", "	end = b.BufferIndex(0, end)\n	if start < 0 || start > end || end > len(b.data) {\n		panic(\"signal: slice bounds out of range\")\n	}\n")])
    yield ("h22_view_check_off_by_one", "explicit index check in the channel view (8.16) + bug: the last valid index is rejected", ["C14"],
           [("channel.go", "func (c C[T]) Sample(index int) T {\n", "func (c C[T]) Sample(index int) T {\n	if index < 0 || index >= c.Length()-1 {\n		panic(\"signal: channel index out of range\")\n	}\n")])
    yield ("h23_alloc_rejects_full_length", "validating Alloc (8.15) + bug: Length == Capacity is rejected", ["C13"],
           [("allocator.go", "func Alloc[T SignalTypes](a Allocator) *Buffer[T] {\n", "func Alloc[T SignalTypes](a Allocator) *Buffer[T] {\n	if a.Channels != 0 && (a.Channels < 0 || a.Length < 0 || a.Length >= a.Capacity) {\n		panic(\"signal: invalid allocator\")\n	}\n")])
    yield ("h24_rate_guard_rejects_slow_rates", "rate guard in Frequency (8.15) + bug: rates up to 1 Hz are treated as invalid", ["C17"],
           [("signal.go", "func (f Frequency) Duration(events int) time.Duration {\n", "func (f Frequency) Duration(events int) time.Duration {\n	if !(f > 1) {\n		return 0\n	}\n")])


def apply(d, f, old, new):
    p = os.path.join(d, f)
    s = open(p).read()
    if old is None:
        s = s + new
    else:
        assert old in s, (f, old[:60])
        s = s.replace(old, new, 1)
    open(p, "w").write(s)


def main():
    exp = json.load(open(os.path.join(OUT, "expected.json")))
    env = dict(os.environ, GOFLAGS="-mod=mod", GOPROXY="off", GOSUMDB="off", GOTOOLCHAIN="local", GOWORK="off")
    for name, note, expect, es in edits():
        d = tempfile.mkdtemp(prefix="/tmp/sighyb-")
        try:
            subprocess.run("cp -r %s/. %s/ && rm -rf %s/.git" % (REPO, d, d), shell=True, check=True)
            for f, old, new in es:
                apply(d, f, old, new)
            subprocess.run(["gofmt", "-w", "."], cwd=d, env=env)
            b = subprocess.run(["go", "build", "./..."], cwd=d, env=env, capture_output=True, text=True)
            if b.returncode != 0:
                print(name, "DOES NOT BUILD", b.stderr[:300])
                continue
            t = subprocess.run(["go", "test", "-count=1", "./..."], cwd=d, env=env, capture_output=True, text=True)
            diff = subprocess.run("diff -ruN -x .git %s %s" % (REPO, d), shell=True, capture_output=True, text=True).stdout
            diff = diff.replace("--- " + REPO + "/", "--- a/").replace("+++ " + d + "/", "+++ b/")
            open(os.path.join(OUT, name + ".patch"), "w").write(diff)
            exp[name] = {"kind": "breaking", "expect": expect, "note": note + ("" if t.returncode == 0 else " (the existing tests fail too)")}
            print(name, "tests:", "ok" if t.returncode == 0 else "FAIL")
        finally:
            shutil.rmtree(d, ignore_errors=True)
    json.dump(exp, open(os.path.join(OUT, "expected.json"), "w"), indent=1)


if __name__ == "__main__":
    main()
