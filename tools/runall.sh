#!/bin/bash
# runall.sh <patch> [props...]  -- apply patch to a scratch copy of /repo; run tests; run checks (default: all 20); one line per property
export GOFLAGS=-mod=mod GOPROXY=off GOSUMDB=off GOTOOLCHAIN=local GOWORK=off
patch=$(realpath $1); shift
props="$@"; [ -z "$props" ] && props=$(seq -f "C%02g" 1 20)
d=$(mktemp -d /tmp/sigmut-XXXX); v=$(mktemp -d /tmp/sigmutv-XXXX)
cp -r /repo/. $d/ ; rm -rf $d/.git; cp /verif/known_findings.json $v/
if ! (cd $d && patch -s -p1 < $patch); then echo "PATCH FAILED"; rm -rf $d $v; exit 9; fi
b=$(cd $d && go build ./... 2>&1 | head -3); [ -n "$b" ] && echo "BUILD: $b"
t=$(cd $d && go test -vet=off -count=1 ./... 2>&1 | tail -1)
echo "tests: $t"
fired=""
for p in $props; do
  out=$(VERIF_REPO=$d VERIF_DIR=$v ${SIGCHECK:-/verif/bin/sigcheck} -prop $p 2>&1); rc=$?
  if [ $rc -ne 0 ]; then fired="$fired $p"; echo "--- $p rc=$rc"; echo "$out" | grep "^REFUTED\|^UNDECIDED" -A1 | grep -v "^--" | cut -c1-${WIDTH:-260} | head -${LINES_MAX:-6}; fi
done
echo "FIRED:$fired"
rm -rf $d $v
