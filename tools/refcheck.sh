#!/bin/bash
# refcheck.sh <dir with patch.diff + check_test.go> : a behaviour-preserving refactoring must leave all 20 checks silent.
export GOFLAGS=-mod=mod GOPROXY=off GOSUMDB=off GOTOOLCHAIN=local GOWORK=off
src=$(realpath $1); shift
props="$@"; [ -z "$props" ] && props=$(seq -f "C%02g" 1 20)
SIG=${SIGCHECK:-/verif/bin/sigcheck}
d=$(mktemp -d /tmp/sigref-XXXX); v=$(mktemp -d /tmp/sigrefv-XXXX)
cp -r /repo/. $d/ ; rm -rf $d/.git; cp /verif/known_findings.json $v/
if ! (cd $d && patch -s -p1 < $src/patch.diff); then echo "PATCH FAILED"; rm -rf $d $v; exit 9; fi
b=$(cd $d && gofmt -l . ; go build ./... 2>&1 | head -3; go vet ./... 2>&1 | head -3; GOARCH=386 go vet ./... 2>&1 | head -3)
suite=$(cd $d && go test -vet=off -count=1 ./... 2>&1 | tail -1)
[ -f $src/check_test.go ] && cp $src/check_test.go $d/zz_ref_check_test.go
chk=$(cd $d && go test -vet=off -count=1 -run 'TestRefactor|TestFeature|TestOpen' . 2>&1 | tail -1)
rm -f $d/zz_ref_check_test.go
echo "build/vet=[$b] suite: $suite | check_test: $chk"
fired=""
for p in $props; do
  out=$(VERIF_REPO=$d VERIF_DIR=$v $SIG -prop $p 2>&1); rc=$?
  if [ $rc -ne 0 ]; then fired="$fired $p"; echo "--- $p rc=$rc"; echo "$out" | grep "^REFUTED\|^UNDECIDED" -A1 | grep -v "^--\|boundary@code=1\|codes 0 and 1" | cut -c1-${WIDTH:-300} | head -${LINES_MAX:-4}; fi
done
echo "FIRED:$fired"
rm -rf $d $v
