#!/usr/bin/env python3
"""mutsweep.py [-j N] [-out DIR] : systematic single-token mutation sweep (self-test of the checker, not a check).

For every non-test source line of /repo a set of classic mutation operators is applied, one mutation per mutant
(relational / arithmetic / logical operator replacement, small-constant replacement, statement deletion, argument
swap). Mutants that do not compile are dropped. For the others the unchanged test suite is run and then all 20
checks (quick tier). The report lists, per mutant: killed by the tests? reported by which checks? Mutants that
survive BOTH are the interesting ones: each is either an equivalent mutant or a miss, to be triaged by hand
(DESIGN.md 8.11). Everything happens in scratch copies under /tmp, removed afterwards.
"""
import os, re, subprocess, sys, json, shutil, tempfile, concurrent.futures as cf

ENV = dict(os.environ, GOFLAGS="-mod=mod", GOPROXY="off", GOSUMDB="off", GOTOOLCHAIN="local", GOWORK="off")
REPO = os.environ.get("MUTSWEEP_REPO", "/repo")
SIG = os.environ.get("SIGCHECK", "/verif/bin/sigcheck")
FILES = ["signal.go", "buffer.go", "allocator.go", "channel.go", "pool.go"]
PROPS = ["C%02d" % i for i in range(1, 21)]

REL = {"<=": ["<", "=="], ">=": [">", "=="], "<": ["<=", ">"], ">": [">=", "<"], "==": ["!="], "!=": ["=="]}
ARI = {"+": ["-"], "-": ["+"], "*": ["/"], "/": ["*"], "%": ["/"], "<<": [">>"], ">>": ["<<"]}
LOG = {"&&": ["||"], "||": ["&&"]}


def code_part(line):
    s = line
    i = s.find("//")
    return s if i < 0 else s[:i]


def mutants_of_line(line):
    """yield (description, new_line)"""
    code = code_part(line)
    rest = line[len(code):]
    st = code.strip()
    if not st or st.startswith("//") or st.startswith("package") or st.startswith("import") or st.startswith('"') or st.startswith("func ") and st.endswith("{") and "(" not in st:
        return
    if '"' in code:  # do not touch string literals
        return
    # operators
    for m in re.finditer(r"<<|>>|<=|>=|==|!=|&&|\|\||[<>+\-*/%]", code):
        op = m.group(0)
        a, b = m.start(), m.end()
        prev = code[a - 1] if a > 0 else " "
        nxt = code[b] if b < len(code) else " "
        if op in ("<", ">") and ("[" in code[:a] and "]" in code[b:] and re.search(r"\[[A-Za-z, ]*$", code[:a])):
            continue  # type parameter lists
        if op == "*" and (prev in "( [,=" or code[:a].rstrip().endswith(("(", ",", "[", "]", "func")) or nxt.isalpha() and prev == " " and code[:a].rstrip().endswith(("(", ","))):
            continue  # pointer types / dereference
        if op == "-" and (prev in "(=,[" or code[:a].rstrip().endswith(("(", "=", ",", "return", "["))):
            continue  # unary minus
        if op in ("+", "-") and (nxt == op or prev == op or nxt == "="):
            continue  # ++ -- += -=
        if op in ("<", ">") and (nxt == "-" or prev == "-"):
            continue
        if op in ("*", "/", "%", "<<", ">>") and nxt == "=":
            continue
        if op == "/" and (nxt == "/" or prev == "/"):
            continue
        for table in (REL, ARI, LOG):
            for rep in table.get(op, []):
                yield ("%s -> %s at col %d" % (op, rep, a), code[:a] + rep + code[b:] + rest)
    # small constants
    for m in re.finditer(r"(?<![\w.])([0-2])(?![\w.])", code):
        a, b = m.start(), m.end()
        v = int(m.group(1))
        for rep in {0: [1], 1: [0, 2], 2: [1]}[v]:
            yield ("const %d -> %d at col %d" % (v, rep, a), code[:a] + str(rep) + code[b:] + rest)
    # increments
    if re.search(r"\+\+\s*$", code.rstrip()) or "++" in code:
        yield ("++ -> --", code.replace("++", "--", 1) + rest)
    # statement deletion (simple statements only)
    if re.match(r"^\t+[A-Za-z_][\w.\[\]]*(\(.*\)|\s*(=|:=|\+=|-=).*)\s*$", code.rstrip()) and not st.startswith(("return", "if", "for", "switch", "case", "func", "var", "type", "const", "defer", "go ")) and not st.endswith("{"):
        if ":=" not in code:
            yield ("delete statement", "")
    # argument swap for two-argument calls of BufferIndex
    m = re.search(r"BufferIndex\(([^(),]+),\s*([^(),]+)\)", code)
    if m:
        yield ("swap BufferIndex arguments", code[:m.start()] + "BufferIndex(%s, %s)" % (m.group(2), m.group(1)) + code[m.end():] + rest)


def run(cmd, cwd, timeout=300):
    try:
        p = subprocess.run(cmd, cwd=cwd, env=ENV, capture_output=True, text=True, timeout=timeout)
        return p.returncode, p.stdout + p.stderr
    except subprocess.TimeoutExpired:
        return 124, "timeout"


def evaluate(job):
    idx, f, ln, desc, newline = job
    d = tempfile.mkdtemp(prefix="/tmp/sigsweep-")
    v = tempfile.mkdtemp(prefix="/tmp/sigsweepv-")
    try:
        subprocess.run("cp -r %s/. %s/ && rm -rf %s/.git" % (REPO, d, d), shell=True)
        shutil.copy("/verif/known_findings.json", v)
        p = os.path.join(d, f)
        lines = open(p).read().split("\n")
        old = lines[ln]
        lines[ln] = newline
        open(p, "w").write("\n".join(lines))
        rc, out = run(["go", "build", "./..."], d, 120)
        if rc != 0:
            return None
        rc, out = run(["go", "vet", "./..."], d, 120)
        vet_ok = rc == 0
        rc, out = run(["go", "test", "-vet=off", "-count=1", "./..."], d, 300)
        tests_pass = rc == 0
        fired = []
        env = dict(ENV, VERIF_REPO=d, VERIF_DIR=v)
        for pr in PROPS:
            try:
                q = subprocess.run([SIG, "-prop", pr], env=env, capture_output=True, text=True, timeout=600)
                if q.returncode != 0:
                    fired.append(pr)
            except subprocess.TimeoutExpired:
                fired.append(pr + "(timeout)")
        return {"id": idx, "file": f, "line": ln + 1, "mutation": desc, "old": old.strip(), "new": newline.strip(), "vet_ok": vet_ok,
                "tests_pass": tests_pass, "fired": fired}
    finally:
        shutil.rmtree(d, ignore_errors=True)
        shutil.rmtree(v, ignore_errors=True)


def main():
    j = 8
    out = "/tmp/sigsweep-report.json"
    args = sys.argv[1:]
    while args:
        a = args.pop(0)
        if a == "-j":
            j = int(args.pop(0))
        elif a == "-out":
            out = args.pop(0)
    jobs = []
    for f in FILES:
        lines = open(os.path.join(REPO, f)).read().split("\n")
        in_block_comment = False
        in_const_block = False
        for i, line in enumerate(lines):
            s = line.strip()
            if s.startswith("/*"):
                in_block_comment = True
            if in_block_comment:
                if "*/" in s:
                    in_block_comment = False
                continue
            if not line.startswith("\t"):
                continue  # top-level declarations and signatures are left alone
            seen = set()
            for desc, nl in mutants_of_line(line):
                if nl == line or nl in seen:
                    continue
                seen.add(nl)
                jobs.append((len(jobs), f, i, desc, nl))
    print("candidate mutants:", len(jobs), flush=True)
    res = []
    with cf.ThreadPoolExecutor(max_workers=j) as ex:
        for k, r in enumerate(ex.map(evaluate, jobs)):
            if r is not None:
                res.append(r)
            if (k + 1) % 50 == 0:
                print("  evaluated", k + 1, "of", len(jobs), "compiling so far:", len(res), flush=True)
    json.dump(res, open(out, "w"), indent=1)
    comp = len(res)
    killed_tests = sum(1 for r in res if not r["tests_pass"])
    reported = sum(1 for r in res if r["fired"])
    surv_tests = [r for r in res if r["tests_pass"]]
    surv_both = [r for r in surv_tests if not r["fired"]]
    print("compiling mutants: %d; killed by the test suite: %d; reported by at least one check: %d" % (comp, killed_tests, reported))
    print("pass the test suite: %d; of those reported by a check: %d; survive both: %d" % (len(surv_tests), len(surv_tests) - len(surv_both), len(surv_both)))
    for r in surv_both:
        print("SURVIVOR %s:%d  %s   | %s  ->  %s" % (r["file"], r["line"], r["mutation"], r["old"], r["new"]))
    missed_all = [r for r in res if not r["fired"] and not r["tests_pass"]]
    for r in missed_all:
        print("TESTS-ONLY %s:%d  %s   | %s  ->  %s" % (r["file"], r["line"], r["mutation"], r["old"], r["new"]))


if __name__ == "__main__":
    main()
