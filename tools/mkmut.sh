#!/bin/bash
# mkmut.sh <name> <file> <python-regex-or-literal old> <new>   -- literal replacement (first occurrence unless COUNT set)
# creates /verif/mutants/<name>.patch relative to the repo root (HEAD of /repo, or BASE dir if given)
set -e
name=$1; file=$2; old=$3; new=$4
base=${BASE:-/repo}
d=$(mktemp -d /tmp/sigmk-XXXX)
cp -r $base/. $d/ ; rm -rf $d/.git
mkdir -p $d.orig && cp -r $base/. $d.orig/ && rm -rf $d.orig/.git
python3 - "$d/$file" "$old" "$new" <<'PY'
import sys
p,old,new=sys.argv[1:4]
s=open(p).read()
if old not in s:
    print("PATTERN NOT FOUND"); sys.exit(3)
cnt=int(__import__('os').environ.get('COUNT','1'))
s=s.replace(old,new,cnt)
open(p,'w').write(s)
PY
(cd $d && gofmt -l . >/dev/null)
(cd /tmp && diff -ruN $(basename $d.orig) $(basename $d) | sed "s#$(basename $d.orig)/#a/#; s#$(basename $d)/#b/#" > /verif/mutants/$name.patch) || true
rm -rf $d $d.orig
echo "wrote /verif/mutants/$name.patch ($(wc -l < /verif/mutants/$name.patch) lines)"
