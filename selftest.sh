#!/bin/bash
# selftest.sh [-seeded] [-refactorings] [-only] [-touching=<file regex>] : self-test of the checker (NOT a property check).
# Applies every patch of /verif/mutants (with -seeded also /verif/seeded/*/patch.diff, with -refactorings also
# /verif/refactorings/*/patch.diff; -only skips the mutants) to a scratch copy of /repo under /tmp (removed
# afterwards), JOBS at a time (default 6), and compares the checks' verdicts with the expectations:
#   breaking patches (mutants/expected.json, seeded/*/meta.json) must be reported by each listed property check;
#   benign patches (b*) and the behaviour-preserving refactorings must leave all 20 checks silent.
export GOFLAGS=-mod=mod GOPROXY=off GOSUMDB=off GOTOOLCHAIN=local GOWORK=off
export SIG=${SIGCHECK:-/verif/bin/sigcheck}
cd /verif
export all=$(seq -f "C%02g" 1 20 | tr '\n' ' ')
run() { # patch props... -> prints fired list
  local patch=$1; shift
  local d=$(mktemp -d /tmp/sigself-XXXX) v=$(mktemp -d /tmp/sigselfv-XXXX)
  cp -r /repo/. $d/; rm -rf $d/.git; cp /verif/known_findings.json $v/
  if ! (cd $d && patch -s -p1 < $patch); then echo "PATCHFAIL"; rm -rf $d $v; return; fi
  local t=$(cd $d && go test -vet=off -count=1 ./... 2>&1 | tail -1 | cut -c1-2)
  local fired=""
  for p in "$@"; do
    VERIF_REPO=$d VERIF_DIR=$v $SIG -prop $p >/dev/null 2>&1 || fired="$fired $p"
  done
  rm -rf $d $v
  echo "tests=$t fired:$fired"
}
one() { # kind name patch expected...
  local kind=$1 name=$2 patch=$3; shift 3
  if [ "$kind" = "benign" ]; then
    local res=$(run $patch $all)
    case "$res" in *"fired:") echo "ok    $name (benign) $res";; *) echo "FALSE-ALARM $name $res";; esac
  else
    local res=$(run $patch "$@") missing=""
    for p in "$@"; do case "$res" in *" $p"*) ;; *) missing="$missing $p";; esac; done
    if [ -z "$missing" ] && [ $# -gt 0 ]; then echo "ok    $name $res"; else echo "MISSED $name expected: $* $res"; fi
  fi
}
export -f run one
jobs_file=$(mktemp /tmp/sigself-jobs-XXXX)
mut=1; seeded=0; refac=0; touching=""
for a in "$@"; do case $a in -seeded) seeded=1;; -refactorings) refac=1;; -only) mut=0;; -touching=*) touching=${a#-touching=};; esac; done
if [ $mut = 1 ]; then
  python3 - >> $jobs_file <<'PY'
import json,glob,os
e=json.load(open('/verif/mutants/expected.json'))
for p in sorted(glob.glob('/verif/mutants/*.patch')):
    n=os.path.basename(p)[:-6]; x=e.get(n,{})
    print(x.get('kind','?'), n, p, ' '.join(x.get('expect',[])))
PY
fi
if [ $seeded = 1 ]; then
  python3 - >> $jobs_file <<'PY'
import json,glob,os
for s in sorted(glob.glob('/verif/seeded/*/')):
    m=json.load(open(s+'meta.json'))
    print('breaking', os.path.basename(s[:-1]), s+'patch.diff', ' '.join(m['checks_that_report_it']))
PY
fi
if [ $refac = 1 ]; then
  for s in /verif/refactorings/*/; do echo "benign $(basename $s) ${s}patch.diff"; done >> $jobs_file
fi
if [ -n "$touching" ]; then # only the patches that touch files matching the regular expression
  awk '{print $3}' $jobs_file | xargs grep -l -E "^\+\+\+ .*($touching)" > $jobs_file.sel
  grep -F -f $jobs_file.sel $jobs_file > $jobs_file.f; mv $jobs_file.f $jobs_file; rm -f $jobs_file.sel
fi
out=$(xargs -P ${JOBS:-6} -L 1 bash -c 'one "$@"' _ < $jobs_file | sort -k2)
rm -f $jobs_file
echo "$out"
echo "$(echo "$out" | grep -c '^ok') ok, $(echo "$out" | grep -vc '^ok') not ok"
case "$out" in *FALSE-ALARM*|*MISSED*|*PATCHFAIL*) exit 1;; esac
exit 0
