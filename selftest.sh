#!/bin/bash
# selftest.sh [-all] : self-test of the checker (NOT a property check).
# Applies every patch of /verif/mutants (and, with -seeded, /verif/seeded/*/patch.diff) to a scratch copy of /repo
# under /tmp (removed afterwards), one at a time, and compares the checks' verdicts with mutants/expected.json:
#   breaking patches must be reported by each listed property check; benign patches (b*) must leave all 20 checks silent.
export GOFLAGS=-mod=mod GOPROXY=off GOSUMDB=off GOTOOLCHAIN=local GOWORK=off
SIG=${SIGCHECK:-/verif/bin/sigcheck}
cd /verif
fail=0
run() { # patch props... -> prints fired list
  local patch=$1; shift
  local d=$(mktemp -d /tmp/sigself-XXXX) v=$(mktemp -d /tmp/sigselfv-XXXX)
  cp -r /repo/. $d/; rm -rf $d/.git; cp /verif/known_findings.json $v/
  if ! (cd $d && patch -s -p1 < $patch); then echo "PATCHFAIL"; rm -rf $d $v; return; fi
  local t=$(cd $d && go test -vet=off -count=1 ./... 2>&1 | tail -1 | cut -c1-2)
  local fired=""
  for p in "$@"; do
    VERIF_REPO=$d VERIF_DIR=$v $SIG -prop $p >/dev/null 2>&1 || fired="$fired $p"
  done
  rm -rf $d $v
  echo "tests=$t fired:$fired"
}
all=$(seq -f "C%02g" 1 20)
for patch in /verif/mutants/*.patch; do
  name=$(basename $patch .patch)
  exp=$(python3 -c "import json,sys; e=json.load(open('mutants/expected.json')); print(' '.join(e.get('$name',{}).get('expect',[])))")
  kind=$(python3 -c "import json,sys; e=json.load(open('mutants/expected.json')); print(e.get('$name',{}).get('kind','?'))")
  if [ "$kind" = "benign" ]; then
    res=$(run $patch $all)
    case "$res" in *"fired:") echo "ok    $name (benign) $res";; *) echo "FALSE-ALARM $name $res"; fail=1;; esac
  else
    res=$(run $patch $exp)
    missing=""
    for p in $exp; do case "$res" in *" $p"*) ;; *) missing="$missing $p";; esac; done
    if [ -z "$missing" ]; then echo "ok    $name $res"; else echo "MISSED $name expected:$exp $res"; fail=1; fi
  fi
done
if [ "$1" = "-seeded" ]; then
  for s in /verif/seeded/*/; do
    own=$(python3 -c "import json; print(json.load(open('$s/meta.json'))['property'])")
    want=$(python3 -c "import json; print(' '.join(json.load(open('$s/meta.json'))['checks_that_report_it']))")
    res=$(run $s/patch.diff $want)
    missing=""
    for p in $want; do case "$res" in *" $p"*) ;; *) missing="$missing $p";; esac; done
    if [ -z "$missing" ]; then echo "ok    $(basename $s) $res"; else echo "MISSED $(basename $s) expected:$want $res"; fail=1; fi
  done
fi
exit $fail
