package main

import (
	"fmt"
	"go/types"
	"math/big"
	"strings"

	"golang.org/x/tools/go/ssa"
)

// accessorForms checks the normal forms of Len/Cap/Length/Capacity (C02-R3, C13-A3).
func accessorForms(c *Checker, rule string, only ...string) {
	type acc struct {
		name string
		want func(b buf) *Term
	}
	for _, a := range []acc{
		{"Len", func(b buf) *Term { return b.lenT() }},
		{"Cap", func(b buf) *Term { return b.capT() }},
		{"Length", func(b buf) *Term { return b.length() }},
		{"Capacity", func(b buf) *Term { return specFloorDiv0(b.capT(), b.ch()) }},
	} {
		if len(only) > 0 {
			skip := true
			for _, n := range only {
				if n == a.name {
					skip = false
				}
			}
			if skip {
				continue
			}
		}
		fn := c.anchor(rule, "(*Buffer[T])."+a.name)
		if fn == nil {
			continue
		}
		s := c.Summary(fn)
		if c.undecidedEffects(rule, "Buffer."+a.name, s) {
			continue
		}
		b := buf{paramName(fn, 0)}
		ret := mergedRet(retPaths(s))
		want := a.want(b)
		// the property quantifies over channels >= 1 (C20 covers zero channels)
		ok := ret != nil && eqUnder(ret, want, shapeAssume(b)) && len(panicPaths(s)) == 0
		for _, o := range s.Outcomes {
			if len(mods(o)) > 0 {
				ok = false
			}
		}
		c.expect(ok, rule, "Buffer."+a.name, c.pos(fn.Pos()), "= "+pretty(canon(want)), fmt.Sprintf("%s returns %s, expected %s (and no effect)", a.name, pretty(canonOrNil(ret)), pretty(canon(want))))
	}
}

func checkC02(c *Checker) {
	c.rule("C02-R1", "Slice's new data is one two-index slice expression of the receiver's data with low = channels*start, high = channels*end, operands unclamped; same storage", 1)
	c.rule("C02-R2", "channels and bitDepth of the new header are copies of the receiver's; the header is a fresh object; the receiver is not written", 2)
	c.rule("C02-R3", "accessor normal forms: Len = len(data), Cap = cap(data), Length = ceil(len/channels), Capacity = cap/channels (0 for zero channels)", 4)
	c.NotDecided = append(c.NotDecided, "overflow of channels*start for astronomically large arguments")
	c.Assumptions = append(c.Assumptions, "Go specification: s[lo:hi] shares storage, len = hi-lo, cap = cap(s)-lo, panics unless 0 <= lo <= hi <= cap(s)")
	fn := c.anchor("C02-R1", "(*Buffer[T]).Slice")
	if fn != nil {
		s := c.Summary(fn)
		if !c.undecidedEffects("C02-R1", "Buffer.Slice", s) {
			b := buf{paramName(fn, 0)}
			start, end := mkAtom(paramName(fn, 1), intT), mkAtom(paramName(fn, 2), intT)
			// an explicit bounds check (a friendlier panic message) is fine as long as it panics only where the slice
			// expression itself would: the path's decisions must imply lo < 0, hi < lo or hi > cap for
			// lo = channels*start, hi = channels*end. Decisions stated in frames are scaled by the channel count
			// (>= 1 under the quantifier) first.
			for _, o := range panicPaths(s) {
				f := factsWith(o.St.facts, shapeAssume(b))
				ch := normInt(b.ch())
				for _, fc := range nonAxiomFacts(o.St.facts) {
					if fc.Kind == CGE0 && fc.P != nil && len(fc.P.m) <= 4 {
						f.add(Cond{Kind: CGE0, P: fc.P.Mul(ch), Tag: "scaled"})
					}
				}
				lo, hi := ch.Mul(normInt(start)), ch.Mul(normInt(end))
				inGo := f.impliesGE0(lo.Neg().AddInt(-1)) || f.impliesGE0(lo.Sub(hi).AddInt(-1)) || f.impliesGE0(hi.Sub(normInt(b.capT())).AddInt(-1))
				if !inGo {
					c.refuted("C02-R1", "Buffer.Slice/panic-path", c.pos(o.Pos), "explicit panic path (bounds must follow Go slices): "+o.St.facts.String(), "")
					break
				}
			}
			// (a path only a zero-channel buffer takes, e.g. the exemption of an explicit bounds check, is C20's)
			var rets []Outcome
			for _, o := range retPaths(s) {
				if feasible(o, shapeAssume(b)) {
					rets = append(rets, o)
				}
			}
			if len(rets) != 1 {
				c.refuted("C02-R1", "Buffer.Slice", c.pos(fn.Pos()), fmt.Sprintf("%d return paths: bounds are clamped or special-cased", len(rets)), "")
			}
			for _, o := range rets {
				p, isPtr := o.Ret.(PtrV)
				var hdr StructV
				okHdr := false
				if isPtr && p.Obj != nil && p.Obj.Kind == OFresh && len(p.Path) == 0 {
					hdr, okHdr = o.St.mem[p.Obj].(StructV)
				}
				if !okHdr || len(hdr.F) < 2 {
					c.refuted("C02-R2", "Buffer.Slice/header", c.pos(o.Pos), "result is not a fresh Buffer header: "+valString(o.Ret), "")
					continue
				}
				fi := bufferFields(p.Obj.Typ)
				if fi == nil {
					c.undecided("C02-R2", "Buffer.Slice/header", c.pos(o.Pos), "cannot resolve the fields channels/data/bitDepth of Buffer")
					continue
				}
				d, isSl := fi.at(hdr, fi.data).(SliceV)
				wantOff := specMul(b.ch(), start)
				okData := isSl && d.Stor != nil && d.Stor.Name == b.stor() && eqInt(d.Off, wantOff) &&
					eqInt(d.Len, specMul(b.ch(), specSub(end, start))) && eqInt(d.Cap, specSub(b.capT(), wantOff))
				// the slice expressions themselves: together they must check exactly what data[lo:hi] checks
				// (0 <= lo <= hi <= cap), no clamping and no extra precondition, however the cut is spelled
				nSlice := 0
				wantHi := specMul(b.ch(), end)
				spec := &Facts{}
				spec.add(Cond{Kind: CGE0, P: normInt(wantOff)})
				spec.add(Cond{Kind: CGE0, P: normInt(wantHi).Sub(normInt(wantOff))})
				spec.add(Cond{Kind: CGE0, P: normInt(b.capT()).Sub(normInt(wantHi))})
				spec.add(Cond{Kind: CGE0, P: normInt(b.capT()).Sub(normInt(b.lenT()))})
				spec.add(Cond{Kind: CGE0, P: normInt(b.lenT())})
				got := &Facts{}
				got.add(Cond{Kind: CGE0, P: normInt(b.capT()).Sub(normInt(b.lenT()))})
				got.add(Cond{Kind: CGE0, P: normInt(b.lenT())})
				for _, e := range effectsOf(o, EIndex) {
					if e.Note != "slice" {
						continue
					}
					nSlice++
					lo, hi, top := normInt(e.Lo), normInt(e.Hi), normInt(e.N)
					conds := []*Poly{lo, hi.Sub(lo), top.Sub(hi)}
					if e.Max != nil {
						mx := normInt(e.Max)
						conds = []*Poly{lo, hi.Sub(lo), mx.Sub(hi), top.Sub(mx)}
					}
					for _, q := range conds {
						got.add(Cond{Kind: CGE0, P: q})
						if !spec.impliesGE0(q) {
							okData = false // an extra precondition: panics where data[lo:hi] does not
						}
					}
				}
				for _, sc := range spec.list[:3] {
					if !got.impliesGE0(sc.P) {
						okData = false // a missing check: does not panic where data[lo:hi] does
					}
				}
				detail := ""
				if isSl {
					detail = valString(d)
				}
				c.expect(okData && nSlice >= 1, "C02-R1", "Buffer.Slice", c.pos(o.Pos), "data[channels*start : channels*end] of the same storage",
					fmt.Sprintf("new data is not the two-index reslice data[channels*start:channels*end] of the receiver's storage (%d slice expressions): %s", nSlice, detail))
				chOK := valTerm(fi.at(hdr, fi.channels)) != nil && eqInt(valTerm(fi.at(hdr, fi.channels)), b.ch())
				c.expect(chOK, "C02-R2", "Buffer.Slice/channels", c.pos(o.Pos), "channels copied", "channels of the view is "+valString(fi.at(hdr, fi.channels)))
				bdOK := valTerm(fi.at(hdr, fi.bitDepth)) != nil && eqInt(valTerm(fi.at(hdr, fi.bitDepth)), b.depth())
				if !bdOK && valTerm(fi.at(hdr, fi.bitDepth)) != nil {
					// by D0 every buffer's depth is 8*sizeof(T): a view that takes it from the element type gets the
					// same value as one that copies the receiver's
					ct := canon(valTerm(fi.at(hdr, fi.bitDepth)))
					// (only while D0 itself holds: a constructor that gives a buffer another depth makes the two differ)
					subD := newChecker(c.Prop, c.Tier, c.Seed, c.verifDir)
					subD.W = c.W
					subD.sums = c.sums
					depthInvariant(subD, "C02-D0")
					d0 := true
					for _, ob := range subD.Obligs {
						if ob.Verdict != Proved {
							d0 = false
						}
					}
					if a := sizeofAtomOf(ct); d0 && a.Name != "sizeof(?)" {
						bdOK = true
						for _, sz := range []int64{1, 2, 4, 8} {
							v := canon(ct.subst(map[string]*Term{a.Name: mkInt(sz, a.Typ)}))
							if z, okc := normIntConst(v); !okc || z != 8*sz {
								bdOK = false
							}
						}
					}
				}
				c.expect(bdOK, "C02-R2", "Buffer.Slice/bitDepth", c.pos(o.Pos), "bitDepth copied", "bitDepth of the view is "+valString(fi.at(hdr, fi.bitDepth)))
				m := mods(o)
				c.expect(len(m) == 0, "C02-R2", "Buffer.Slice/receiver", c.pos(o.Pos), "no store to the receiver or anything else", "Slice modifies memory: "+describeEffects(m))
			}
		}
	}
	accessorForms(c, "C02-R3")
}

type bufFields struct{ channels, data, bitDepth []int }

func bufferFields(t types.Type) *bufFields {
	if _, ok := t.Underlying().(*types.Struct); !ok {
		return nil
	}
	f := &bufFields{channels: indexPath(t, hdrLayout.ch), data: indexPath(t, hdrLayout.data), bitDepth: indexPath(t, hdrLayout.depth)}
	if f.channels == nil || f.data == nil || f.bitDepth == nil {
		return nil
	}
	return f
}

func checkC04(c *Checker) {
	c.rule("C04-A", "full buffer (len == cap): no effect at all", 1)
	c.rule("C04-B", "otherwise exactly: data[len] <- v in the same storage, header len+1, cap and storage unchanged; the append cannot reallocate", 1)
	c.Assumptions = append(c.Assumptions, "Go specification: append to a slice with len < cap writes in place")
	fn := c.anchor("C04-B", "(*Buffer[T]).AppendSample")
	if fn == nil {
		return
	}
	s := c.Summary(fn)
	if c.undecidedEffects("C04-B", "Buffer.AppendSample", s) {
		return
	}
	b := buf{paramName(fn, 0)}
	v := mkAtom(paramName(fn, 1), nil)
	if ps := panicPaths(s); len(ps) > 0 {
		c.refuted("C04-A", "Buffer.AppendSample/panic-path", c.pos(ps[0].Pos), "explicit panic path", "")
	}
	full := Cond{Kind: CEQ0, P: normSign(normInt(b.capT()).Sub(normInt(b.lenT())))}
	fi := bufferFields(s.Fn.Params[0].Type().Underlying().(*types.Pointer).Elem())
	nA, nB := 0, 0
	for _, o := range retPaths(s) {
		if !feasible(o, shapeAssume(b)) {
			continue // a path only a buffer without channels takes (C20's subject)
		}
		m := mods(o)
		fullHere := o.St.facts.eval(full)
		switch fullHere {
		case Yes:
			nA++
			c.expect(len(m) == 0, "C04-A", "Buffer.AppendSample/full", c.pos(o.Pos), "no-op", "a full buffer is modified: "+describeEffects(m))
		case No:
			nB++
			okStore, okHdr, extra := false, false, 0
			for _, e := range m {
				switch {
				case e.Kind == EStoreElem && e.Stor.Name == b.stor() && eqInt(e.Idx, b.lenT()) && valTerm(e.Val) != nil && valTerm(e.Val).Key() == v.Key() && !okStore:
					okStore = true
				case e.Kind == EStoreField && e.Obj.Name == b.obj() && fi != nil && pathEq(e.Path, fi.data) && !okHdr:
					d, isSl := e.Val.(SliceV)
					okHdr = isSl && d.Stor != nil && d.Stor.Name == b.stor() && eqInt(d.Off, zeroT()) && eqInt(d.Len, specAdd(b.lenT(), mkInt(1, intT))) && eqInt(d.Cap, b.capT())
					if !okHdr {
						extra++
					}
				default:
					extra++
				}
			}
			grow := effectsOf(o, EGrow)
			c.expect(okStore && okHdr && extra == 0 && len(grow) == 0, "C04-B", "Buffer.AppendSample/room", c.pos(o.Pos),
				"data[len] <- v, len+1, same storage and capacity", fmt.Sprintf("not exactly {data[len] <- v; len+1; same storage}: %s %s", describeEffects(m), describeEffects(grow)))
		default:
			c.refuted("C04-B", "Buffer.AppendSample/guard", c.pos(o.Pos), "a path is not decided by the test len == cap: "+o.St.facts.String()+" effects: "+describeEffects(m), "")
		}
	}
	if nA == 0 {
		c.refuted("C04-A", "Buffer.AppendSample/full", c.pos(fn.Pos()), "no path handles the full buffer (len == cap) as a no-op", "")
	}
	if nB == 0 {
		c.refuted("C04-B", "Buffer.AppendSample/room", c.pos(fn.Pos()), "no path appends when there is room", "")
	}
	c.rule("C04-L", "the reported per-channel length is ceil(Len/channels) and the total capacity is cap(data)", 2)
	accessorForms(c, "C04-L", "Length", "Cap")
	// views that "see the appended values" are separate headers over the same storage: Slice must return a fresh
	// header that shares the receiver's storage (C02-R1/R2), never the receiver itself
	c.rule("C04-V", "premise: Slice yields a fresh header over the receiver's storage (C02-R1, C02-R2)", 4)
	sub := newChecker(c.Prop, c.Tier, c.Seed, c.verifDir)
	sub.W = c.W
	sub.sums = c.sums
	checkC02(sub)
	for _, o := range sub.Obligs {
		if o.Rule == "C02-R1" || o.Rule == "C02-R2" {
			c.add("C04-V", o.Rule+"/"+o.Instance, o.Pos, o.Verdict, o.Detail, o.Witness)
		}
	}
}

func checkC14(c *Checker) {
	c.rule("C14-P", "position term: C.Sample(i) loads, C.SetSample(i,v) stores, C.BufferIndex(_, i) returns parent position channels*i + c.channel (siblings must agree)", 3)
	c.rule("C14-F", "forwarders: Channels() = 1, Length()/Capacity() = the parent's, Channel(c) stores the receiver pointer itself and c", 4)
	c.Assumptions = append(c.Assumptions, "index arithmetic does not overflow int")
	get := func(rule, name string) (*ssa.Function, *Summary) {
		fn := c.anchor(rule, "(C[T])."+name)
		if fn == nil {
			return nil, nil
		}
		s := c.Summary(fn)
		if c.undecidedEffects(rule, "C."+name, s) {
			return nil, nil
		}
		return fn, s
	}
	// entry atoms of the receiver value c: c.Buffer (pointer), c.channel
	// the view's two fields, found by type: the pointer to the parent Buffer and the integer channel number
	parentFld, chanFld := "Buffer", "channel"
	if o := c.W.Pkg.Types.Scope().Lookup("C"); o != nil {
		if st, ok := o.Type().Underlying().(*types.Struct); ok {
			for i := 0; i < st.NumFields(); i++ {
				ft := st.Field(i).Type()
				if pt, isP := ft.(*types.Pointer); isP && isBufferType(pt.Elem()) {
					parentFld = st.Field(i).Name()
				} else if bt, isB := ft.Underlying().(*types.Basic); isB && bt.Info()&types.IsInteger != 0 {
					chanFld = st.Field(i).Name()
				}
			}
		}
	}
	parent := func(fn *ssa.Function) (buf, *Term) {
		r := paramName(fn, 0)
		return buf{r + "." + parentFld}, mkAtom(r+"."+chanFld, intT)
	}
	if fn, s := get("C14-P", "Sample"); fn != nil {
		pb, chn := parent(fn)
		want := specAdd(specMul(pb.ch(), mkAtom(paramName(fn, 1), intT)), chn)
		ret := mergedRet(retPaths(s))
		ok := ret != nil && isElemOf(ret, pb.stor(), want) // (explicit panic paths are judged by C14-B)
		got := "?"
		if ret != nil && ret.Op == OpElem {
			got = pretty(canon(ret.Args[0]))
		}
		c.expect(ok, "C14-P", "C.Sample", c.pos(fn.Pos()), "loads parent element "+pretty(want), fmt.Sprintf("C.Sample(i) loads parent element %s, expected %s", got, pretty(want)))
	}
	if fn, s := get("C14-P", "SetSample"); fn != nil {
		pb, chn := parent(fn)
		want := specAdd(specMul(pb.ch(), mkAtom(paramName(fn, 1), intT)), chn)
		ok := len(retPaths(s)) == 1 // (explicit panic paths are judged by C14-B)
		got := ""
		if ok {
			m := mods(retPaths(s)[0])
			ok = len(m) == 1 && m[0].Kind == EStoreElem && m[0].Stor.Name == pb.stor() && eqInt(m[0].Idx, want) && valTerm(m[0].Val) != nil && valTerm(m[0].Val).Key() == mkAtom(paramName(fn, 2), nil).Key()
			got = describeEffects(m)
		}
		c.expect(ok, "C14-P", "C.SetSample", c.pos(fn.Pos()), "stores parent element "+pretty(want), fmt.Sprintf("C.SetSample(i,v) is not exactly one store to parent element %s: %s", pretty(want), got))
	}
	// B: the view's accessors have no precondition beyond the parent's own access data[channels*i+c]
	c.rule("C14-B", "no extra precondition: every index/slice bound evaluated by C.Sample and C.SetSample is implied by 0 <= channels*i+c < len(parent data) (so the view can reach every sample the parent can, including a partial last frame)", 2)
	for _, name := range []string{"Sample", "SetSample"} {
		fn, s := get("C14-B", name)
		if fn == nil {
			continue
		}
		pb, chn := parent(fn)
		want := normInt(specAdd(specMul(pb.ch(), mkAtom(paramName(fn, 1), intT)), chn))
		ok, d := true, ""
		n := 0
		for _, o := range retPaths(s) {
			for _, e := range effectsOf(o, EIndex) {
				n++
				f := e.Facts.clone()
				f.add(Cond{Kind: CGE0, P: want})
				f.add(Cond{Kind: CGE0, P: normInt(pb.lenT()).Sub(want).AddInt(-1)})
				f.add(Cond{Kind: CGE0, P: normInt(pb.capT()).Sub(normInt(pb.lenT()))})
				f.add(Cond{Kind: CGE0, P: normInt(pb.ch()).AddInt(-1)})
				f.add(Cond{Kind: CGE0, P: normInt(chn)})
				f.add(Cond{Kind: CGE0, P: normInt(pb.ch()).Sub(normInt(chn)).AddInt(-1)})
				f.add(Cond{Kind: CGE0, P: normInt(mkAtom(paramName(fn, 1), intT))})
				if !boundsImpliedUnder(e, f) {
					ok, d = false, fmt.Sprintf("%s at %s is not implied by the validity of the parent's access: the view panics where the parent does not", e.String(), c.effPos(e))
				}
			}
		}
		// an explicit index check (a friendlier panic) is fine when it fires only where the parent's own index
		// expression would: the path's decisions (scaled by the channel count where stated per channel) must imply
		// that the interleaved position is negative or not below the parent's length
		for _, po := range panicPaths(s) {
			if len(mods(po)) > 0 {
				ok, d = false, "the view accessor modifies memory before it panics"
			}
			f := simplifyFacts(po.St.facts, shapeAssume(pb))
			f.add(Cond{Kind: CGE0, P: normInt(pb.lenT())})
			f.add(Cond{Kind: CGE0, P: normInt(pb.ch()).AddInt(-1)})
			f.add(Cond{Kind: CGE0, P: normInt(chn)})
			f.add(Cond{Kind: CGE0, P: normInt(pb.ch()).Sub(normInt(chn)).AddInt(-1)})
			for _, fc := range nonAxiomFacts(simplifyFacts(po.St.facts, shapeAssume(pb))) {
				if fc.Kind == CGE0 && fc.P != nil && len(fc.P.m) <= 4 {
					f.add(Cond{Kind: CGE0, P: fc.P.Mul(normInt(pb.ch())), Tag: "scaled"})
				}
			}
			i := normInt(mkAtom(paramName(fn, 1), intT))
			ci := normInt(pb.ch()).Mul(i)
			ln := normInt(pb.lenT())
			inParent := f.impliesGE0(i.Neg().AddInt(-1)) || f.impliesGE0(want.Neg().AddInt(-1)) || f.impliesGE0(want.Sub(ln)) || f.impliesGE0(ci.Sub(ln))
			if !inParent {
				ok, d = false, "explicit panic path in the view accessor that a valid access can take: "+factsBrief(po.St.facts)
			}
		}
		c.expect(ok, "C14-B", "C."+name, c.pos(fn.Pos()), fmt.Sprintf("%d bounds implied by the parent's access", n), d)
	}
	if fn, s := get("C14-P", "BufferIndex"); fn != nil {
		pb, chn := parent(fn)
		want := specAdd(specMul(pb.ch(), mkAtom(paramName(fn, 2), intT)), chn)
		ret := mergedRet(retPaths(s))
		c.expect(ret != nil && eqInt(ret, want), "C14-P", "C.BufferIndex", c.pos(fn.Pos()), "returns "+pretty(want), fmt.Sprintf("C.BufferIndex(_, i) returns %s, expected the parent position %s", pretty(canonOrNil(ret)), pretty(want)))
	}
	if fn, s := get("C14-F", "Channels"); fn != nil {
		ret := mergedRet(retPaths(s))
		c.expect(ret != nil && eqInt(ret, mkInt(1, intT)), "C14-F", "C.Channels", c.pos(fn.Pos()), "= 1", "C.Channels() returns "+pretty(canonOrNil(ret)))
	}
	if fn, s := get("C14-F", "Length"); fn != nil {
		pb, _ := parent(fn)
		ret := mergedRet(retPaths(s))
		c.expect(ret != nil && eqUnder(ret, pb.length(), shapeAssume(pb)), "C14-F", "C.Length", c.pos(fn.Pos()), "= parent's Length", "C.Length() returns "+pretty(canonOrNil(ret)))
	}
	if fn, s := get("C14-F", "Capacity"); fn != nil {
		pb, _ := parent(fn)
		ret := mergedRet(retPaths(s))
		c.expect(ret != nil && eqUnder(ret, specFloorDiv0(pb.capT(), pb.ch()), shapeAssume(pb)), "C14-F", "C.Capacity", c.pos(fn.Pos()), "= parent's Capacity", "C.Capacity() returns "+pretty(canonOrNil(ret)))
	}
	if fn := c.anchor("C14-F", "(*Buffer[T]).Channel"); fn != nil {
		s := c.Summary(fn)
		if !c.undecidedEffects("C14-F", "Buffer.Channel", s) {
			// the property speaks about the channels the buffer has: paths that only an index outside
			// [0, channels) takes (a range check that panics) are outside it
			valid := &Facts{}
			cAtom := normInt(mkAtom(paramName(fn, 1), intT))
			valid.add(Cond{Kind: CGE0, P: cAtom})
			valid.add(Cond{Kind: CGE0, P: normInt(buf{paramName(fn, 0)}.ch()).Sub(cAtom).AddInt(-1)})
			var rets, panics []Outcome
			for _, o := range retPaths(s) {
				if feasible(o, valid) {
					rets = append(rets, o)
				}
			}
			for _, o := range panicPaths(s) {
				if feasible(o, valid) {
					panics = append(panics, o)
				}
			}
			ok := len(rets) == 1 && len(panics) == 0
			got := ""
			if ok {
				o := rets[0]
				sv, isS := o.Ret.(StructV)
				got = valString(o.Ret)
				ok = isS && len(sv.F) == 2 && len(mods(o)) == 0
				if ok {
					nPtr, nCh := 0, 0
					for _, f := range sv.F {
						if p, isP := f.(PtrV); isP && p.Obj != nil && p.Obj.Name == "*"+paramName(fn, 0) && len(p.Path) == 0 {
							nPtr++
						}
						if t := valTerm(f); t != nil && t.Key() == mkAtom(paramName(fn, 1), nil).Key() {
							nCh++
						}
					}
					ok = nPtr == 1 && nCh == 1
				}
			}
			c.expect(ok, "C14-F", "Buffer.Channel", c.pos(fn.Pos()), "view holds the receiver pointer and c", "Channel(c) does not return {receiver pointer, c}: "+got)
		}
	}
}

func checkC13(c *Checker) {
	depthInvariant(c, "C13-D0")
	c.rule("C13-A1", "Alloc: data is one make([]T, Channels*Length, Channels*Capacity) with no element store (zeroed), fresh and not stored elsewhere; channels = Channels; fresh header", 1)
	c.rule("C13-A2", "bit-depth table: getBitDepth[T] evaluates to 8*sizeof(T) for every term of the type set, as built-in and as named type", 26)
	c.rule("C13-A3", "accessor normal forms (C02-R3) report the shape", 4)
	c.Assumptions = append(c.Assumptions, "Go specification: make returns zeroed, unshared storage")
	fn := c.anchor("C13-A1", "Alloc")
	if fn != nil {
		s := c.Summary(fn)
		if !c.undecidedEffects("C13-A1", "Alloc", s) {
			a := paramName(fn, 0)
			chn, ln, cp := mkAtom(a+".Channels", intT), mkAtom(a+".Length", intT), mkAtom(a+".Capacity", intT)
			// a validation that rejects only allocators outside the quantifier (a negative field, Length > Capacity,
			// a size that overflows int) leaves the property alone
			for _, po := range panicPaths(s) {
				if !c.inadmissibleAllocatorPath(po) {
					c.refuted("C13-A1", "Alloc/panic-path", c.pos(po.Pos), "explicit panic path an admissible allocator (Channels >= 1, 0 <= Length <= Capacity, size within int) can take: "+factsBrief(po.St.facts), "")
					break
				}
			}
			okAll := len(retPaths(s)) > 0
			detail := ""
			for _, o := range retPaths(s) {
				p, isPtr := o.Ret.(PtrV)
				if !isPtr || p.Obj == nil || p.Obj.Kind != OFresh {
					okAll, detail = false, "result is not a fresh header: "+valString(o.Ret)
					break
				}
				hdr, _ := o.St.mem[p.Obj].(StructV)
				fi := bufferFields(p.Obj.Typ)
				if fi == nil || len(hdr.F) < 2 {
					okAll, detail = false, "cannot resolve Buffer fields"
					break
				}
				d, isSl := fi.at(hdr, fi.data).(SliceV)
				if !isSl || d.Stor == nil || d.Stor.Kind != SFresh || !eqInt(d.Off, zeroT()) || !(eqInt(d.Len, specMul(chn, ln)) || eqUnder(d.Len, specMul(chn, ln), admissibleAllocator(chn, ln, cp))) ||
					!(eqInt(d.Cap, specMul(chn, cp)) || eqUnder(d.Cap, specMul(chn, cp), admissibleAllocator(chn, ln, cp))) {
					okAll, detail = false, "data is not make([]T, Channels*Length, Channels*Capacity): "+valString(fi.at(hdr, fi.data))
					break
				}
				if t := valTerm(fi.at(hdr, fi.channels)); t == nil || !eqInt(t, chn) {
					okAll, detail = false, "channels is "+valString(fi.at(hdr, fi.channels))
					break
				}
				nMake := 0
				for _, e := range o.St.effects {
					if e.Kind == EAlloc && e.Stor != nil && e.Stor.Kind == SFresh {
						nMake++
					}
					if (e.Kind == EStoreElem || e.Kind == ECopy) && e.Stor == d.Stor {
						okAll, detail = false, "fresh storage is written: "+e.String()
					}
				}
				if m := mods(o); len(m) > 0 {
					okAll, detail = false, "Alloc modifies existing memory: "+describeEffects(m)
				}
				if nMake != 1 {
					okAll, detail = false, fmt.Sprintf("%d make sites", nMake)
				}
			}
			c.expect(okAll, "C13-A1", "Alloc", c.pos(fn.Pos()), "fresh zeroed make([]T, C*L, C*K), channels = C", detail)
		}
	}
	// A2: per instantiation of getBitDepth
	for _, tn := range coreTypes {
		for _, name := range []string{tn, namedOf(tn)} {
			inst := "getBitDepth[" + name + "]"
			fn := c.W.Fn(inst)
			if fn == nil {
				fn = c.W.Fn("getBitDepth[" + c.W.Pkg.PkgPath + "." + name + "]")
			}
			if fn == nil {
				// the helper may have been inlined into Alloc: evaluate Alloc[T] instead
				c.bitDepthViaAlloc(name)
				continue
			}
			s := c.Summary(fn)
			if c.undecidedEffects("C13-A2", inst, s) {
				continue
			}
			ret := mergedRet(retPaths(s))
			c.bitDepthVerdict(inst, name, ret, fn)
		}
	}
	accessorForms(c, "C13-A3")
	// the pool's refill path is the other way a buffer is allocated: it must be Alloc of the stored allocator,
	// fresh on every call (C10-P3)
	c.rule("C13-A4", "pooled allocation: the pool's New path returns Alloc[T](argument allocator), a fresh buffer per call (C10-P3), and a recycled buffer is handed out with the allocator's length and capacity, zeroed (C10-P1 length/capacity/zeroed, C10-P2)", 2)
	sub := newChecker(c.Prop, c.Tier, c.Seed, c.verifDir)
	sub.W = c.W
	sub.sums = c.sums
	poolObligations(sub, "C10-P")
	for _, o := range sub.Obligs {
		shape := o.Rule == "C10-P1" && (strings.HasSuffix(o.Instance, "/length") || strings.HasSuffix(o.Instance, "/capacity") || strings.HasSuffix(o.Instance, "/zeroed"))
		if o.Rule == "C10-P3" || o.Rule == "C10-P2" || shape {
			c.add("C13-A4", o.Rule+"/"+o.Instance, o.Pos, o.Verdict, o.Detail, o.Witness)
		}
	}
}

func (c *Checker) typeByName(name string) types.Type {
	if o := c.W.Pkg.Types.Scope().Lookup(name); o != nil {
		return o.Type()
	}
	if o := types.Universe.Lookup(name); o != nil {
		return o.Type()
	}
	return nil
}

func (c *Checker) bitDepthVerdict(inst, tname string, ret *Term, fn *ssa.Function) {
	t := c.typeByName(tname)
	if t == nil {
		c.undecided("C13-A2", inst, "", "cannot resolve type "+tname)
		return
	}
	want := c.W.Sizes.Sizeof(t) * 8
	got, ok := normIntConst(ret)
	if ret == nil || !ok {
		c.undecided("C13-A2", inst, c.pos(fn.Pos()), "bit depth does not evaluate to a constant: "+pretty(canonOrNil(ret)))
		return
	}
	c.expect(got == want, "C13-A2", inst, c.pos(fn.Pos()), fmt.Sprintf("depth %d", want),
		fmt.Sprintf("bit depth of element type %s evaluates to %d, expected %d (8*sizeof) on %s", tname, got, want, c.W.Arch))
}

func (c *Checker) bitDepthViaAlloc(tname string) {
	inst := "Alloc[" + tname + "]"
	fn := c.W.Fn(inst)
	if fn == nil {
		fn = c.W.Fn("Alloc[" + c.W.Pkg.PkgPath + "." + tname + "]")
	}
	if fn == nil {
		c.undecided("C13-A2", "getBitDepth["+tname+"]", "", "neither getBitDepth nor Alloc is instantiated for "+tname)
		return
	}
	s := c.Summary(fn)
	if c.undecidedEffects("C13-A2", inst, s) {
		return
	}
	for _, o := range retPaths(s) {
		p, isPtr := o.Ret.(PtrV)
		if !isPtr || p.Obj == nil {
			continue
		}
		hdr, _ := o.St.mem[p.Obj].(StructV)
		fi := bufferFields(p.Obj.Typ)
		if fi == nil || len(hdr.F) < 2 {
			continue
		}
		c.bitDepthVerdict(inst, tname, valTerm(fi.at(hdr, fi.bitDepth)), fn)
		return
	}
	c.undecided("C13-A2", inst, c.pos(fn.Pos()), "no return path with a header")
}

// depthOf returns the bit depth the current tree assigns to element type tname
// (the value getBitDepth evaluates to), for E4.
func (c *Checker) depthOf(tname string) (int64, bool) {
	for _, n := range []string{"getBitDepth[" + tname + "]", "getBitDepth[" + c.W.Pkg.PkgPath + "." + tname + "]"} {
		if fn := c.W.Fn(n); fn != nil {
			s := c.Summary(fn)
			ret := mergedRet(retPaths(s))
			if v, ok := normIntConst(ret); ok {
				return v, true
			}
		}
	}
	for _, n := range []string{"Alloc[" + tname + "]", "Alloc[" + c.W.Pkg.PkgPath + "." + tname + "]"} {
		if fn := c.W.Fn(n); fn != nil {
			s := c.Summary(fn)
			for _, o := range retPaths(s) {
				if p, ok := o.Ret.(PtrV); ok && p.Obj != nil {
					hdr, _ := o.St.mem[p.Obj].(StructV)
					if fi := bufferFields(p.Obj.Typ); fi != nil && len(hdr.F) >= 2 {
						if v, ok := normIntConst(valTerm(fi.at(hdr, fi.bitDepth))); ok {
							return v, true
						}
					}
				}
			}
		}
	}
	return 0, false
}

var _ = strings.Contains

// inadmissibleAllocatorPath: the decisions of the path contradict an admissible allocator x: x.Channels >= 1,
// 0 <= x.Length <= x.Capacity, x.Channels*x.Capacity <= MaxInt (x found from the atoms of the path).
func (c *Checker) inadmissibleAllocatorPath(o Outcome) bool {
	prefix := ""
	for _, fc := range nonAxiomFacts(o.St.facts) {
		if fc.P == nil {
			continue
		}
		fc.P.mentions(func(x *Term) bool {
			if x.Op == OpAtom {
				for _, suf := range []string{".Channels", ".Length", ".Capacity"} {
					if strings.HasSuffix(x.Name, suf) {
						prefix = strings.TrimSuffix(x.Name, suf)
					}
				}
			}
			return false
		})
	}
	if prefix == "" {
		return false
	}
	ch, ln, cp := normInt(mkAtom(prefix+".Channels", intT)), normInt(mkAtom(prefix+".Length", intT)), normInt(mkAtom(prefix+".Capacity", intT))
	bits := 8 * c.W.Interp.sizes.Sizeof(types.Typ[types.Int])
	maxInt := polyConst(new(big.Int).Sub(pow2(bits-1), big.NewInt(1)))
	adm := &Facts{}
	adm.add(Cond{Kind: CGE0, P: ch.AddInt(-1)})
	adm.add(Cond{Kind: CGE0, P: ln})
	adm.add(Cond{Kind: CGE0, P: cp.Sub(ln)})
	adm.add(Cond{Kind: CGE0, P: cp})
	adm.add(Cond{Kind: CGE0, P: maxInt.Sub(ch.Mul(cp))})
	if !feasible(o, adm) {
		return true
	}
	// a size check stated with a division (Capacity > MaxInt/Channels): scale the decisions by the channel count
	f := factsWith(o.St.facts, adm)
	for _, fc := range nonAxiomFacts(o.St.facts) {
		if fc.Kind == CGE0 && fc.P != nil && len(fc.P.m) <= 4 {
			f.add(Cond{Kind: CGE0, P: fc.P.Mul(ch), Tag: "scaled"})
		}
	}
	return f.impliesGE0(ch.Mul(cp).Sub(maxInt).AddInt(-1)) || f.impliesGE0(ch.Mul(ln).Sub(maxInt).AddInt(-1))
}

// admissibleAllocator: the allocators C13 and C10 quantify over (Channels >= 1 is added by the callers that need it).
func admissibleAllocator(chn, ln, cp *Term) *Facts {
	f := &Facts{}
	f.add(Cond{Kind: CGE0, P: normInt(chn)})
	f.add(Cond{Kind: CGE0, P: normInt(ln)})
	f.add(Cond{Kind: CGE0, P: normInt(cp).Sub(normInt(ln))})
	f.add(Cond{Kind: CGE0, P: normInt(cp)})
	return f
}
