package main

// E6: compiler cross-reference for C18 (thorough tier only, never the sole
// verdict). A witness package that only references every hot function at the
// element types is compiled (not run) with -gcflags=-m; every heap escape the
// compiler reports at a position of the analysed package must be a site E5
// knows about.

import (
	"bytes"
	"fmt"
	"os"
	"os/exec"
	"path/filepath"
	"regexp"
	"sort"
	"strconv"
	"strings"

	"golang.org/x/tools/go/ssa"
)

func compilerCrossCheck(c *Checker, hot []*ssa.Function) {
	c.rule("C18-E6", "compiler cross-reference: every 'escapes to heap'/'moved to heap' the compiler prints for an instantiated hot function is a site E5 recorded (allowed or already reported)", 1)
	// lines E5 knows: positions, call sites and declaring functions of all allocation effects of hot functions
	known := map[string]bool{}
	addPos := func(p string) {
		if p != "" {
			known[p] = true
		}
	}
	for _, fn := range hot {
		s := c.Summary(fn)
		for _, o := range s.Outcomes {
			for _, e := range o.St.effects {
				if e.Kind != EAlloc && e.Kind != EGrow {
					continue
				}
				addPos(c.pos(e.Pos))
				for _, sp := range e.Sites {
					addPos(c.pos(sp))
				}
				if e.Fn != nil {
					addPos(c.pos(e.Fn.Pos()))
					// the panic statement of the function that boxes the panic value
					for _, b := range e.Fn.Blocks {
						for _, in := range b.Instrs {
							if p, ok := in.(*ssa.Panic); ok {
								addPos(c.pos(p.Pos()))
							}
						}
					}
				}
				for _, f := range e.Stack {
					addPos(c.pos(f.Pos()))
				}
			}
		}
	}
	dir, err := os.MkdirTemp("", "sigwitness-")
	if err != nil {
		c.undecided("C18-E6", "witness", "", "cannot create a scratch directory: "+err.Error())
		return
	}
	defer os.RemoveAll(dir)
	modText, _ := os.ReadFile(filepath.Join(c.W.Dir, "go.mod"))
	var sb strings.Builder
	goVer := "1.21"
	if m := regexp.MustCompile(`(?m)^go\s+(\S+)`).FindSubmatch(modText); m != nil {
		goVer = string(m[1])
	}
	fmt.Fprintf(&sb, "module sigwitness\n\ngo %s\n\nrequire %s v0.0.0\n", goVer, c.W.Pkg.PkgPath)
	for _, m := range regexp.MustCompile(`(?m)^\s*(?:require\s+)?([A-Za-z0-9._~/-]+\.[A-Za-z0-9._~/-]+/\S+)\s+(v[0-9]\S*)`).FindAllSubmatch(modText, -1) {
		fmt.Fprintf(&sb, "require %s %s\n", m[1], m[2])
	}
	fmt.Fprintf(&sb, "replace %s => %s\n", c.W.Pkg.PkgPath, c.W.Dir)
	os.WriteFile(filepath.Join(dir, "go.mod"), []byte(sb.String()), 0o644)
	if sum, err := os.ReadFile(filepath.Join(c.W.Dir, "go.sum")); err == nil {
		os.WriteFile(filepath.Join(dir, "go.sum"), sum, 0o644)
	}
	// witness source
	var w strings.Builder
	w.WriteString("package main\n\nimport signal \"" + c.W.Pkg.PkgPath + "\"\n\nvar Sink []any\n\nfunc main() {\n\tSink = append(Sink,\n")
	have := func(n string) bool { return c.W.Fn(n) != nil }
	nInst := 0
	emit := func(expr string) { fmt.Fprintf(&w, "\t\t%s,\n", expr); nInst++ }
	pairs := func(fn string, ss, ds []string) {
		if !have(fn) {
			return
		}
		for _, s := range ss {
			for _, d := range ds {
				emit(fmt.Sprintf("signal.%s[%s, %s]", fn, s, d))
			}
		}
	}
	pairs("FloatAsFloat", floatTypes, floatTypes)
	pairs("FloatAsSigned", floatTypes, signedTypes)
	pairs("FloatAsUnsigned", floatTypes, unsignedTypes)
	pairs("SignedAsFloat", signedTypes, floatTypes)
	pairs("UnsignedAsFloat", unsignedTypes, floatTypes)
	pairs("SignedAsSigned", signedTypes, signedTypes)
	pairs("SignedAsUnsigned", signedTypes, unsignedTypes)
	pairs("UnsignedAsSigned", unsignedTypes, signedTypes)
	pairs("UnsignedAsUnsigned", unsignedTypes, unsignedTypes)
	for i, t := range coreTypes {
		u := coreTypes[(i+5)%len(coreTypes)]
		for _, fn := range []string{"Read", "Write", "ReadStriped", "WriteStriped"} {
			if have(fn) {
				emit(fmt.Sprintf("signal.%s[%s, %s]", fn, t, t))
				emit(fmt.Sprintf("signal.%s[%s, %s]", fn, t, u))
			}
		}
		for _, m := range []string{"Sample", "SetSample", "AppendSample", "Len", "Cap", "Length", "Capacity", "Channel", "Slice", "Append"} {
			emit(fmt.Sprintf("(*signal.Buffer[%s]).%s", t, m))
		}
		for _, m := range []string{"Sample", "SetSample", "BufferIndex", "Channels", "Length", "Capacity"} {
			emit(fmt.Sprintf("signal.C[%s].%s", t, m))
		}
		emit(fmt.Sprintf("(*signal.PoolAllocator[%s]).Get", t))
		emit(fmt.Sprintf("(*signal.PoolAllocator[%s]).Put", t))
	}
	w.WriteString("\t)\n}\n")
	os.WriteFile(filepath.Join(dir, "main.go"), []byte(w.String()), 0o644)
	cmd := exec.Command("go", "build", "-gcflags=-m", "-o", filepath.Join(dir, "witness.out"), ".")
	cmd.Dir = dir
	cmd.Env = append(os.Environ(), "GOFLAGS=-mod=mod", "GOPROXY=off", "GOSUMDB=off", "GOWORK=off", "GOARCH="+c.W.Arch, "CGO_ENABLED=0")
	var out bytes.Buffer
	cmd.Stdout, cmd.Stderr = &out, &out
	if err := cmd.Run(); err != nil {
		tail := out.String()
		if len(tail) > 600 {
			tail = tail[len(tail)-600:]
		}
		c.undecided("C18-E6", "witness", "", "the witness package does not compile: "+err.Error()+": "+tail)
		return
	}
	re := regexp.MustCompile(`^(\S+\.go):(\d+):(\d+): (.*(?:escapes to heap|moved to heap).*)$`)
	unknown := map[string]string{}
	nEsc := 0
	for _, line := range strings.Split(out.String(), "\n") {
		m := re.FindStringSubmatch(line)
		if m == nil {
			continue
		}
		abs := m[1]
		if !strings.HasPrefix(abs, c.W.Dir+"/") && filepath.Dir(abs) != c.W.Dir {
			continue // the witness itself or another package
		}
		nEsc++
		ln, _ := strconv.Atoi(m[2])
		key := fmt.Sprintf("%s:%d", filepath.Base(abs), ln)
		if !known[key] {
			unknown[key] = m[4]
		}
	}
	var keys []string
	for k := range unknown {
		keys = append(keys, k)
	}
	sort.Strings(keys)
	for _, k := range keys {
		c.refuted("C18-E6", "compiler-escape/"+unknown[k], k, "the compiler reports a heap escape in an instantiated hot function that the allocation-site analysis did not record: "+unknown[k], "")
	}
	if len(keys) == 0 {
		c.proved("C18-E6", "witness", "", fmt.Sprintf("%d instantiations compiled with -m; %d escape lines at package positions, all at sites E5 recorded", nInst, nEsc))
	}
	c.Extra["e6_instantiations_compiled"] = nInst
	c.Extra["e6_escape_lines"] = nEsc
}
