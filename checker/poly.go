package main

// Shape-mode normal forms: integer terms are read as mathematical integers
// (index arithmetic; overflow of len/cap products is an explicit assumption
// of DESIGN §6) and normalised to polynomials with big.Int coefficients over
// opaque factors. Comparisons are normalised to GE0/EQ0/NE0 of a polynomial.

import (
	"go/token"
	"go/types"
	"math/big"
	"sort"
	"strings"
)

type monom struct {
	coef    *big.Int
	factors []*Term // sorted by key
}

type Poly struct {
	m map[string]*monom
}

func newPoly() *Poly { return &Poly{m: map[string]*monom{}} }

func polyConst(v *big.Int) *Poly {
	p := newPoly()
	if v.Sign() != 0 {
		p.m[""] = &monom{coef: new(big.Int).Set(v)}
	}
	return p
}

func polyInt(v int64) *Poly { return polyConst(big.NewInt(v)) }

func polyAtom(t *Term) *Poly {
	p := newPoly()
	p.m[t.Key()] = &monom{coef: big.NewInt(1), factors: []*Term{t}}
	return p
}

func factorsKey(fs []*Term) string {
	ks := make([]string, len(fs))
	for i, f := range fs {
		ks[i] = f.Key()
	}
	return strings.Join(ks, "*")
}

func (p *Poly) clone() *Poly {
	q := newPoly()
	for k, mo := range p.m {
		q.m[k] = &monom{coef: new(big.Int).Set(mo.coef), factors: mo.factors}
	}
	return q
}

func (p *Poly) addMonom(k string, coef *big.Int, fs []*Term) {
	if mo, ok := p.m[k]; ok {
		mo.coef.Add(mo.coef, coef)
		if mo.coef.Sign() == 0 {
			delete(p.m, k)
		}
		return
	}
	if coef.Sign() != 0 {
		p.m[k] = &monom{coef: new(big.Int).Set(coef), factors: fs}
	}
}

func (p *Poly) Add(q *Poly) *Poly {
	r := p.clone()
	for k, mo := range q.m {
		r.addMonom(k, mo.coef, mo.factors)
	}
	return r
}

func (p *Poly) Scale(c *big.Int) *Poly {
	r := newPoly()
	if c.Sign() == 0 {
		return r
	}
	for k, mo := range p.m {
		r.m[k] = &monom{coef: new(big.Int).Mul(mo.coef, c), factors: mo.factors}
	}
	return r
}

func (p *Poly) Neg() *Poly { return p.Scale(big.NewInt(-1)) }

func (p *Poly) Sub(q *Poly) *Poly { return p.Add(q.Neg()) }

func (p *Poly) AddInt(v int64) *Poly { return p.Add(polyInt(v)) }

func (p *Poly) Mul(q *Poly) *Poly {
	r := newPoly()
	for _, a := range p.m {
		for _, b := range q.m {
			fs := append(append([]*Term{}, a.factors...), b.factors...)
			sort.Slice(fs, func(i, j int) bool { return fs[i].Key() < fs[j].Key() })
			r.addMonom(factorsKey(fs), new(big.Int).Mul(a.coef, b.coef), fs)
		}
	}
	return r
}

func (p *Poly) IsConst() (*big.Int, bool) {
	if len(p.m) == 0 {
		return big.NewInt(0), true
	}
	if len(p.m) == 1 {
		if mo, ok := p.m[""]; ok {
			return mo.coef, true
		}
	}
	return nil, false
}

func (p *Poly) IsZero() bool { return len(p.m) == 0 }

func (p *Poly) Equal(q *Poly) bool { return p.Sub(q).IsZero() }

func (p *Poly) keys() []string {
	ks := make([]string, 0, len(p.m))
	for k := range p.m {
		ks = append(ks, k)
	}
	sort.Strings(ks)
	return ks
}

func (p *Poly) Key() string {
	var sb strings.Builder
	for _, k := range p.keys() {
		sb.WriteString(p.m[k].coef.String())
		sb.WriteString("·[")
		sb.WriteString(k)
		sb.WriteString("] ")
	}
	if sb.Len() == 0 {
		return "0"
	}
	return sb.String()
}

func (p *Poly) String() string {
	if len(p.m) == 0 {
		return "0"
	}
	var parts []string
	for _, k := range p.keys() {
		mo := p.m[k]
		if k == "" {
			parts = append(parts, mo.coef.String())
			continue
		}
		fs := make([]string, len(mo.factors))
		for i, f := range mo.factors {
			fs[i] = pretty(f)
		}
		s := strings.Join(fs, "·")
		if mo.coef.Cmp(big.NewInt(1)) != 0 {
			s = mo.coef.String() + "·" + s
		}
		parts = append(parts, s)
	}
	return strings.Join(parts, " + ")
}

// coefOf returns the coefficient of the degree-1 monomial of atom a, and
// whether a occurs in any other monomial.
func (p *Poly) coefOf(a *Term) (*big.Int, bool) {
	c := big.NewInt(0)
	other := false
	for _, mo := range p.m {
		n := 0
		for _, f := range mo.factors {
			if f.Key() == a.Key() || f.contains(func(x *Term) bool { return x.Key() == a.Key() }) {
				n++
			}
		}
		if n == 0 {
			continue
		}
		if n == 1 && len(mo.factors) == 1 && mo.factors[0].Key() == a.Key() {
			c = mo.coef
		} else {
			other = true
		}
	}
	return c, other
}

// splitLinear writes p as s*a + rest with a occurring in neither s nor rest (ok = false when a occurs with a higher
// power or inside another factor).
func (p *Poly) splitLinear(a *Term) (s, rest *Poly, ok bool) {
	s, rest = newPoly(), newPoly()
	for k, mo := range p.m {
		n := 0
		var others []*Term
		for _, f := range mo.factors {
			switch {
			case f.Key() == a.Key():
				n++
			case f.contains(func(x *Term) bool { return x.Key() == a.Key() }):
				return nil, nil, false
			default:
				others = append(others, f)
			}
		}
		switch n {
		case 0:
			rest.addMonom(k, mo.coef, mo.factors)
		case 1:
			s.addMonom(factorsKey(others), mo.coef, others)
		default:
			return nil, nil, false
		}
	}
	return s, rest, true
}

func (p *Poly) mentions(pred func(*Term) bool) bool {
	for _, mo := range p.m {
		for _, f := range mo.factors {
			if f.contains(pred) {
				return true
			}
		}
	}
	return false
}

var intT = types.Typ[types.Int]

// toTerm renders the polynomial as a canonical Term (deterministic order).
func (p *Poly) toTerm() *Term {
	if c, ok := p.IsConst(); ok {
		return mkBig(c, intT)
	}
	var sum *Term
	for _, k := range p.keys() {
		mo := p.m[k]
		var prod *Term
		if k == "" {
			prod = mkBig(mo.coef, intT)
		} else {
			for _, f := range mo.factors {
				if prod == nil {
					prod = f
				} else {
					prod = &Term{Op: OpMul, Typ: intT, Args: []*Term{prod, f}}
				}
			}
			if mo.coef.Cmp(big.NewInt(1)) != 0 {
				prod = &Term{Op: OpMul, Typ: intT, Args: []*Term{mkBig(mo.coef, intT), prod}}
			}
		}
		if sum == nil {
			sum = prod
		} else {
			sum = &Term{Op: OpAdd, Typ: intT, Args: []*Term{sum, prod}}
		}
	}
	return sum
}

func isIntLike(t types.Type) bool {
	if t == nil {
		return false
	}
	b, ok := t.Underlying().(*types.Basic)
	return ok && b.Info()&types.IsInteger != 0
}

func isFloatLike(t types.Type) bool {
	if t == nil {
		return false
	}
	b, ok := t.Underlying().(*types.Basic)
	return ok && b.Info()&types.IsFloat != 0
}

// normInt maps an integer-typed term to its polynomial. Conversions between
// integer types are the identity in shape mode.
func normInt(t *Term) *Poly {
	switch t.Op {
	case OpConst:
		if v, ok := bigOf(t.C); ok {
			return polyConst(v)
		}
	case OpAdd:
		if isIntLike(t.Typ) {
			return normInt(t.Args[0]).Add(normInt(t.Args[1]))
		}
	case OpSub:
		if isIntLike(t.Typ) {
			return normInt(t.Args[0]).Sub(normInt(t.Args[1]))
		}
	case OpMul:
		if isIntLike(t.Typ) {
			return normInt(t.Args[0]).Mul(normInt(t.Args[1]))
		}
	case OpNeg:
		if isIntLike(t.Typ) {
			return normInt(t.Args[0]).Neg()
		}
	case OpShl:
		if isIntLike(t.Typ) {
			if k, ok := normInt(t.Args[1]).IsConst(); ok && k.Sign() >= 0 && k.IsInt64() && k.Int64() < 63 {
				return normInt(t.Args[0]).Scale(new(big.Int).Lsh(big.NewInt(1), uint(k.Int64())))
			}
		}
	case OpConv:
		if isIntLike(t.Typ) && isIntLike(t.Args[0].Typ) {
			return normInt(t.Args[0])
		}
	}
	ct := canon2(t, true)
	if v, ok := ct.ConstInt(); ok {
		return polyConst(v)
	}
	return polyAtom(ct)
}

// canon rewrites a term into its shape-mode canonical form.
func canon(t *Term) *Term { return canon2(t, false) }

func canon2(t *Term, fromNorm bool) *Term {
	if t == nil {
		return nil
	}
	switch t.Op {
	case OpConst, OpAtom, OpUnknown:
		return t
	}
	if isIntLike(t.Typ) {
		switch t.Op {
		case OpAdd, OpSub, OpMul, OpNeg, OpShl:
			if fromNorm {
				// normInt could not expand this node: canonicalise the operands only
				return canonArgs(t)
			}
			p := normInt(t)
			if len(p.m) == 1 {
				for _, mo := range p.m {
					if len(mo.factors) == 1 && mo.coef.Cmp(big.NewInt(1)) == 0 && mo.factors[0].Key() == t.Key() {
						return t // opaque already
					}
				}
			}
			return p.toTerm()
		case OpConv:
			if isIntLike(t.Args[0].Typ) {
				return canon(t.Args[0])
			}
			// int(math.Ceil(float64(a)/float64(b))) => ceildiv(a,b)
			if a, b, ok := matchCeilFloat(t); ok {
				return &Term{Op: OpCeilDiv, Typ: intT, Args: []*Term{canon(a), canon(b)}}
			}
		case OpDiv:
			n, d := normInt(t.Args[0]), normInt(t.Args[1])
			// (a + b - 1) / b  =>  ceildiv(a, b)
			a := n.Sub(d).AddInt(1)
			if len(a.m)+2 <= len(n.m) && hasConst(n, -1) {
				if _, isC := d.IsConst(); !isC {
					return &Term{Op: OpCeilDiv, Typ: intT, Args: []*Term{a.toTerm(), d.toTerm()}}
				}
			}
			if n.IsZero() {
				return mkInt(0, intT) // 0/d (a zero divisor is a separate obligation: EDiv)
			}
			return &Term{Op: OpDiv, Typ: intT, Args: []*Term{n.toTerm(), d.toTerm()}}
		case OpRem:
			if normInt(t.Args[0]).IsZero() {
				return mkInt(0, intT)
			}
			return &Term{Op: OpRem, Typ: intT, Args: []*Term{normInt(t.Args[0]).toTerm(), normInt(t.Args[1]).toTerm()}}
		case OpIte:
			c := condOf(t.Args[0], false)
			x, y := canon(t.Args[1]), canon(t.Args[2])
			return canonIte(c, x, y)
		case OpMin, OpMax:
			return mkMinMax(t.Op, canon(t.Args[0]), canon(t.Args[1]))
		}
	}
	if t.Op == OpIte {
		c := condOf(t.Args[0], false)
		return canonIte(c, canon(t.Args[1]), canon(t.Args[2]))
	}
	if t.Op == OpCmp || t.Op == OpLNot {
		return condOf(t, false).Term()
	}
	args := make([]*Term, len(t.Args))
	ch := false
	for i, a := range t.Args {
		args[i] = canon(a)
		if args[i] != a {
			ch = true
		}
	}
	if !ch {
		return t
	}
	c := *t
	c.Args = args
	c.key = ""
	return &c
}

func hasConst(p *Poly, v int64) bool {
	mo, ok := p.m[""]
	return ok && mo.coef.Cmp(big.NewInt(v)) == 0
}

func matchCeilFloat(t *Term) (a, b *Term, ok bool) {
	if t.Op != OpConv || !isIntLike(t.Typ) {
		return
	}
	c := t.Args[0]
	if c.Op != OpCall || c.Name != "math.Ceil" || len(c.Args) != 1 {
		return
	}
	d := c.Args[0]
	if d.Op != OpDiv || !isFloatLike(d.Typ) {
		return
	}
	x, y := d.Args[0], d.Args[1]
	if x.Op == OpConv && y.Op == OpConv && isIntLike(x.Args[0].Typ) && isIntLike(y.Args[0].Typ) && kindOf(x.Typ).Bits == 64 && kindOf(y.Typ).Bits == 64 {
		return x.Args[0], y.Args[0], true
	}
	return
}

func mkMinMax(op Op, x, y *Term) *Term {
	if x.Key() > y.Key() {
		x, y = y, x
	}
	if x.Key() == y.Key() {
		return x
	}
	// constant folding
	if a, ok := x.ConstInt(); ok {
		if b, ok2 := y.ConstInt(); ok2 {
			if (a.Cmp(b) < 0) == (op == OpMin) {
				return x
			}
			return y
		}
	}
	// a length or capacity is never negative: min(c, len) = c and max(c, len) = len for a constant c <= 0
	for _, pr := range [][2]*Term{{x, y}, {y, x}} {
		if c, ok := pr[0].ConstInt(); ok && c.Sign() <= 0 && structNonNeg(pr[1], 0) {
			if op == OpMin {
				return pr[0]
			}
			return pr[1]
		}
	}
	return &Term{Op: op, Typ: x.Typ, Args: []*Term{x, y}}
}

func canonIte(c Cond, x, y *Term) *Term {
	switch c.Kind {
	case CTrue:
		return x
	case CFalse:
		return y
	}
	if x.Key() == y.Key() {
		return x
	}
	if c.Kind == CGE0 && isIntLike(x.Typ) && isIntLike(y.Typ) {
		d := normInt(y).Sub(normInt(x)) // y - x
		// cond: x < y or x <= y  => min(x,y)
		if c.P.Equal(d.AddInt(-1)) || c.P.Equal(d) {
			return mkMinMax(OpMin, x, y)
		}
		nd := d.Neg()
		if c.P.Equal(nd.AddInt(-1)) || c.P.Equal(nd) {
			return mkMinMax(OpMax, x, y)
		}
	}
	// the integer spelling of a ceiling division: q := a/b; if a%b > 0 { q++ }   (exact for every a when b >= 1:
	// a%b <= 0 means a is a multiple of b or negative, where the truncated quotient is the ceiling)
	if isIntLike(x.Typ) && isIntLike(y.Typ) && (c.Kind == CGE0 || c.Kind == CEQ0 || c.Kind == CNE0) && c.P != nil {
		var r *Term
		var rc *big.Int
		cst := big.NewInt(0)
		okShape := true
		for k, mo := range c.P.m {
			switch {
			case k == "":
				cst = mo.coef
			case len(mo.factors) == 1 && mo.factors[0].Op == OpRem && r == nil:
				r, rc = mo.factors[0], mo.coef
			default:
				okShape = false
			}
		}
		if okShape && r != nil {
			q := normInt(&Term{Op: OpDiv, Typ: intT, Args: []*Term{r.Args[0], r.Args[1]}})
			var zeroV, otherV *Term // value where the remainder is not positive, value where it is
			switch {
			case c.Kind == CGE0 && rc.Cmp(big.NewInt(-1)) == 0 && cst.Sign() == 0: // -rem >= 0
				zeroV, otherV = x, y
			case c.Kind == CGE0 && rc.Cmp(big.NewInt(1)) == 0 && cst.Cmp(big.NewInt(-1)) == 0: // rem - 1 >= 0
				zeroV, otherV = y, x
			case c.Kind == CEQ0 && cst.Sign() == 0:
				zeroV, otherV = x, y
			case c.Kind == CNE0 && cst.Sign() == 0:
				zeroV, otherV = y, x
			}
			// (rem == 0 / rem != 0 decide the same as rem <= 0 / rem > 0 only for a >= 0: accepted for lengths)
			if zeroV != nil && normInt(zeroV).Equal(q) && normInt(otherV).Equal(q.AddInt(1)) &&
				(c.Kind == CGE0 || structNonNeg(r.Args[0], 0)) {
				return canon(&Term{Op: OpCeilDiv, Typ: x.Typ, Args: []*Term{r.Args[0], r.Args[1]}})
			}
		}
	}
	// canonical polarity: the smaller key of c / ¬c goes first
	n := c.Not()
	if n.Key() < c.Key() {
		c, x, y = n, y, x
	}
	return &Term{Op: OpIte, Typ: x.Typ, Args: []*Term{c.Term(), x, y}}
}

type CondKind int

const (
	CTrue CondKind = iota
	CFalse
	CGE0
	CEQ0
	CNE0
	COther
)

type Cond struct {
	Kind CondKind
	P    *Poly
	T    *Term // COther: canonical boolean term
	Neg  bool  // COther: negated
	Pos  token.Pos
	Tag  string // origin tag ("loop", "assume", ...)
	// Orig is the branch condition as the interpreter saw it (typed, not
	// normalised), OrigNeg its polarity: the numeric engine (E4) re-evaluates
	// it with machine semantics.
	Orig    *Term
	OrigNeg bool
}

func (c Cond) Key() string {
	switch c.Kind {
	case CTrue:
		return "true"
	case CFalse:
		return "false"
	case CGE0:
		return "GE0{" + c.P.Key() + "}"
	case CEQ0:
		return "EQ0{" + c.P.Key() + "}"
	case CNE0:
		return "NE0{" + c.P.Key() + "}"
	}
	if c.Neg {
		return "not{" + c.T.Key() + "}"
	}
	return "is{" + c.T.Key() + "}"
}

func (c Cond) String() string {
	switch c.Kind {
	case CTrue:
		return "true"
	case CFalse:
		return "false"
	case CGE0:
		return c.P.String() + " >= 0"
	case CEQ0:
		return c.P.String() + " == 0"
	case CNE0:
		return c.P.String() + " != 0"
	}
	if c.Neg {
		return "!(" + pretty(c.T) + ")"
	}
	return pretty(c.T)
}

func (c Cond) Not() Cond {
	r := c
	r.OrigNeg = !c.OrigNeg
	switch c.Kind {
	case CTrue:
		r.Kind = CFalse
	case CFalse:
		r.Kind = CTrue
	case CGE0:
		r.P = c.P.Neg().AddInt(-1)
	case CEQ0:
		r.Kind = CNE0
	case CNE0:
		r.Kind = CEQ0
	default:
		r.Neg = !c.Neg
	}
	return r
}

// Term renders the condition as a boolean term (for embedding in Ite).
func (c Cond) Term() *Term {
	bt := types.Typ[types.Bool]
	switch c.Kind {
	case CTrue:
		return mkBool(true)
	case CFalse:
		return mkBool(false)
	case CGE0:
		return &Term{Op: OpCmp, Tok: token.GEQ, Typ: bt, Args: []*Term{c.P.toTerm(), mkInt(0, intT)}}
	case CEQ0:
		return &Term{Op: OpCmp, Tok: token.EQL, Typ: bt, Args: []*Term{c.P.toTerm(), mkInt(0, intT)}}
	case CNE0:
		return &Term{Op: OpCmp, Tok: token.NEQ, Typ: bt, Args: []*Term{c.P.toTerm(), mkInt(0, intT)}}
	}
	if c.Neg {
		return &Term{Op: OpLNot, Typ: bt, Args: []*Term{c.T}}
	}
	return c.T
}

func normSign(p *Poly) *Poly {
	ks := p.keys()
	for _, k := range ks {
		if k == "" {
			continue
		}
		if p.m[k].coef.Sign() < 0 {
			return p.Neg()
		}
		return p
	}
	return p
}

// condOf canonicalises a boolean term.
func condOf(t *Term, neg bool) Cond {
	var c Cond
	switch {
	case t.Op == OpConst:
		if b, ok := t.ConstBool(); ok {
			if b != neg {
				return Cond{Kind: CTrue}
			}
			return Cond{Kind: CFalse}
		}
		c = Cond{Kind: COther, T: t}
	case t.Op == OpLNot:
		return condOf(t.Args[0], !neg)
	case t.Op == OpCmp && isIntLike(t.Args[0].Typ) && isIntLike(t.Args[1].Typ):
		a, b := normInt(t.Args[0]), normInt(t.Args[1])
		switch t.Tok {
		case token.LSS:
			c = Cond{Kind: CGE0, P: b.Sub(a).AddInt(-1)}
		case token.LEQ:
			c = Cond{Kind: CGE0, P: b.Sub(a)}
		case token.GTR:
			c = Cond{Kind: CGE0, P: a.Sub(b).AddInt(-1)}
		case token.GEQ:
			c = Cond{Kind: CGE0, P: a.Sub(b)}
		case token.EQL:
			c = Cond{Kind: CEQ0, P: normSign(a.Sub(b))}
		case token.NEQ:
			c = Cond{Kind: CNE0, P: normSign(a.Sub(b))}
		}
		if v, ok := c.P.IsConst(); ok {
			var truth bool
			switch c.Kind {
			case CGE0:
				truth = v.Sign() >= 0
			case CEQ0:
				truth = v.Sign() == 0
			case CNE0:
				truth = v.Sign() != 0
			}
			if truth {
				c = Cond{Kind: CTrue}
			} else {
				c = Cond{Kind: CFalse}
			}
		}
	case t.Op == OpCmp:
		x, y := canon(t.Args[0]), canon(t.Args[1])
		tok := t.Tok
		// orient: GTR/GEQ -> LSS/LEQ with swapped operands
		switch tok {
		case token.GTR:
			tok, x, y = token.LSS, y, x
		case token.GEQ:
			tok, x, y = token.LEQ, y, x
		case token.EQL, token.NEQ:
			if x.Key() > y.Key() {
				x, y = y, x
			}
		}
		ng := false
		if tok == token.NEQ {
			tok, ng = token.EQL, true
		}
		c = Cond{Kind: COther, T: &Term{Op: OpCmp, Tok: tok, Typ: types.Typ[types.Bool], Args: []*Term{x, y}}, Neg: ng}
	default:
		c = Cond{Kind: COther, T: canonArgs(t)}
	}
	c.Pos = t.Pos
	if neg {
		return c.Not()
	}
	return c
}

func canonArgs(t *Term) *Term {
	if len(t.Args) == 0 {
		return t
	}
	args := make([]*Term, len(t.Args))
	for i, a := range t.Args {
		args[i] = canon(a)
	}
	c := *t
	c.Args = args
	c.key = ""
	return &c
}

// ---- facts and a tiny implication procedure (no solver) ----

type Tri int

const (
	Unknown Tri = iota
	Yes
	No
)

type Facts struct {
	list  []Cond
	extra []*Poly // polynomials of the current query (so that their min/max atoms are known)
}

// geIn2: q follows from the sum of two known facts (used for the operand of a rem/div, e.g. x + m - x mod m >= 0
// from x - x mod m >= 0 and m - 1 >= 0).
func geIn2(g []*Poly, q *Poly) bool {
	if len(q.m) > 6 || len(g) > 400 {
		return false
	}
	for i, a := range g {
		d := q.Sub(a)
		for _, b := range g[i:] {
			if nonNegConst(d.Sub(b)) {
				return true
			}
		}
	}
	return false
}

func geIn(g []*Poly, q *Poly) bool {
	if nonNegConst(q) {
		return true
	}
	for _, a := range g {
		if nonNegConst(q.Sub(a)) {
			return true
		}
	}
	return false
}

func (f *Facts) clone() *Facts {
	return &Facts{list: append([]Cond{}, f.list...)}
}

func (f *Facts) add(c Cond) {
	if c.Kind == CTrue {
		return
	}
	for _, e := range f.list {
		if e.Key() == c.Key() {
			return
		}
	}
	f.list = append(f.list, c)
}

// ge0Facts returns the polynomials known to be >= 0 (with one round of
// strengthening by != facts).
func (f *Facts) ge0Facts() []*Poly {
	var out []*Poly
	for _, c := range f.list {
		switch c.Kind {
		case CGE0:
			out = append(out, c.P)
		case CEQ0:
			out = append(out, c.P, c.P.Neg())
		}
	}
	// p >= 0 and p != 0  =>  p - 1 >= 0 (also before the structural knowledge below, which asks for b >= 1)
	for _, c := range f.list {
		if c.Kind != CNE0 {
			continue
		}
		n := len(out)
		for i := 0; i < n; i++ {
			if out[i].Equal(c.P) || out[i].Equal(c.P.Neg()) {
				out = append(out, out[i].AddInt(-1))
			}
		}
	}
	// structural knowledge about opaque atoms: len/cap are non-negative; min(a,b) <= a, b; max(a,b) >= a, b;
	// min of non-negatives, max with a non-negative, a running max from a non-negative start, ceildiv of a
	// non-negative by a positive and an if-then-else of non-negatives are non-negative
	seen := map[string]bool{}
	var atoms []*Term
	var visit func(t *Term)
	visit = func(t *Term) {
		if t == nil || seen[t.Key()] {
			return
		}
		seen[t.Key()] = true
		for _, a := range t.Args {
			visit(a)
		}
		switch t.Op {
		case OpMin, OpMax, OpCeilDiv, OpFold, OpIte, OpRem, OpDiv:
			atoms = append(atoms, t) // children first
		case OpCall:
			if strings.HasPrefix(t.Name, reinterpretPrefix) && len(t.Args) == 1 {
				atoms = append(atoms, t)
			}
		case OpAtom:
			if strings.HasPrefix(t.Name, "len(") || strings.HasPrefix(t.Name, "cap(") {
				atoms = append(atoms, t)
			}
		}
	}
	collect := func(p *Poly) {
		for _, mo := range p.m {
			for _, f := range mo.factors {
				visit(f)
			}
		}
	}
	for _, c := range f.list {
		if c.P != nil {
			collect(c.P)
		}
	}
	for _, q := range f.extra {
		collect(q)
	}
	for _, t := range atoms {
		if !isIntLike(t.Typ) && t.Op != OpAtom {
			continue
		}
		m := polyAtom(t)
		switch t.Op {
		case OpAtom:
			out = append(out, m)
		case OpMin:
			a, b := normInt(t.Args[0]), normInt(t.Args[1])
			out = append(out, a.Sub(m), b.Sub(m))
			if geIn(out, a) && geIn(out, b) {
				out = append(out, m)
			}
		case OpMax:
			a, b := normInt(t.Args[0]), normInt(t.Args[1])
			out = append(out, m.Sub(a), m.Sub(b))
			if geIn(out, a) || geIn(out, b) {
				out = append(out, m)
			}
		case OpFold:
			if t.Name == "max" && len(t.Args) == 2 && isIntLike(t.Args[0].Typ) && geIn(out, normInt(t.Args[0])) {
				out = append(out, m)
			}
		case OpCeilDiv:
			// a >= 0, b >= 1: ceildiv(a,b) >= 0, a <= b*ceildiv(a,b) <= a + b - 1
			if geIn(out, normInt(t.Args[0])) && geIn(out, normInt(t.Args[1]).AddInt(-1)) {
				a, b := normInt(t.Args[0]), normInt(t.Args[1])
				out = append(out, m, b.Mul(m).Sub(a), a.Add(b).AddInt(-1).Sub(b.Mul(m)))
			}
		case OpCall:
			// u = uintN(x) for a signed x of at most that width: u >= 0; x >= 0 implies u = x; u < 2^N - 2^(M-1) implies u = x >= 0
			x := normInt(t.Args[0])
			out = append(out, m)
			k := kindOf(t.Typ)
			same := geIn(out, x)
			if fk := kindOf(t.Args[0].Typ); !same && k.OK && fk.OK && fk.Bits <= k.Bits {
				// a negative x becomes at least 2^toBits - 2^(fromBits-1): anything below that is x itself
				maxS := new(big.Int).Sub(new(big.Int).Sub(pow2(int64(k.Bits)), pow2(int64(fk.Bits-1))), big.NewInt(1))
				for _, a := range out {
					if cst, ok := a.Add(m).IsConst(); ok && cst.Cmp(maxS) <= 0 && len(a.m) <= 2 {
						same = true
						break
					}
				}
			}
			if same {
				out = append(out, x, m.Sub(x), x.Sub(m))
			}
		case OpRem:
			// a >= 0, b >= 1: 0 <= a mod b <= b-1 and a mod b <= a
			a, b := normInt(t.Args[0]), normInt(t.Args[1])
			if geIn(out, b.AddInt(-1)) && (geIn(out, a) || geIn2(out, a)) {
				out = append(out, m, b.AddInt(-1).Sub(m), a.Sub(m))
			}
		case OpDiv:
			// a >= 0, b >= 1: 0 <= a/b <= a, b*(a/b) <= a <= b*(a/b) + b - 1
			a, b := normInt(t.Args[0]), normInt(t.Args[1])
			if geIn(out, a) && geIn(out, b.AddInt(-1)) {
				out = append(out, m, a.Sub(m), a.Sub(b.Mul(m)), b.Mul(m).Add(b).AddInt(-1).Sub(a))
			}
		case OpIte:
			if isIntLike(t.Args[1].Typ) && isIntLike(t.Args[2].Typ) && geIn(out, normInt(t.Args[1])) && geIn(out, normInt(t.Args[2])) {
				out = append(out, m)
			}
		}
	}
	// p >= 0 and p != 0  =>  p - 1 >= 0
	for _, c := range f.list {
		if c.Kind != CNE0 {
			continue
		}
		n := len(out)
		for i := 0; i < n; i++ {
			if out[i].Equal(c.P) || out[i].Equal(c.P.Neg()) {
				out = append(out, out[i].AddInt(-1))
			}
		}
	}
	return out
}

func nonNegConst(p *Poly) bool {
	v, ok := p.IsConst()
	return ok && v.Sign() >= 0
}

func (f *Facts) impliesGE0(q *Poly) bool {
	if nonNegConst(q) {
		return true
	}
	f.extra = []*Poly{q}
	g := f.ge0Facts()
	f.extra = nil
	for _, a := range g {
		if nonNegConst(q.Sub(a)) {
			return true
		}
	}
	for i, a := range g {
		for j := i; j < len(g); j++ {
			if nonNegConst(q.Sub(a).Sub(g[j])) {
				return true
			}
		}
	}
	return false
}

func (f *Facts) eval(c Cond) Tri {
	switch c.Kind {
	case CTrue:
		return Yes
	case CFalse:
		return No
	case CGE0:
		if f.impliesGE0(c.P) {
			return Yes
		}
		if f.impliesGE0(c.P.Neg().AddInt(-1)) {
			return No
		}
		return Unknown
	case CEQ0:
		for _, e := range f.list {
			if e.Kind == CEQ0 && (e.P.Equal(c.P) || e.P.Equal(c.P.Neg())) {
				return Yes
			}
			if e.Kind == CNE0 && (e.P.Equal(c.P) || e.P.Equal(c.P.Neg())) {
				return No
			}
		}
		if f.impliesGE0(c.P) && f.impliesGE0(c.P.Neg()) {
			return Yes
		}
		if f.impliesGE0(c.P.AddInt(-1)) || f.impliesGE0(c.P.Neg().AddInt(-1)) {
			return No
		}
		return Unknown
	case CNE0:
		switch f.eval(Cond{Kind: CEQ0, P: c.P}) {
		case Yes:
			return No
		case No:
			return Yes
		}
		return Unknown
	}
	for _, e := range f.list {
		if e.Kind == COther && e.T.Key() == c.T.Key() {
			if e.Neg == c.Neg {
				return Yes
			}
			return No
		}
	}
	return Unknown
}

func (f *Facts) String() string {
	s := make([]string, len(f.list))
	for i, c := range f.list {
		s[i] = c.String()
	}
	return strings.Join(s, " ∧ ")
}

// structNonNeg: non-negative by construction (lengths, capacities, non-negative constants, and min / max /
// truncating quotient by a positive constant of such terms).
func structNonNeg(t *Term, depth int) bool {
	if t == nil || depth > 6 {
		return false
	}
	switch t.Op {
	case OpAtom:
		return strings.HasPrefix(t.Name, "len(") || strings.HasPrefix(t.Name, "cap(")
	case OpConst:
		c, ok := t.ConstInt()
		return ok && c.Sign() >= 0
	case OpMin:
		return structNonNeg(t.Args[0], depth+1) && structNonNeg(t.Args[1], depth+1)
	case OpMax:
		return structNonNeg(t.Args[0], depth+1) || structNonNeg(t.Args[1], depth+1)
	case OpDiv:
		c, ok := t.Args[1].ConstInt()
		return ok && c.Sign() > 0 && structNonNeg(t.Args[0], depth+1)
	}
	return false
}
