package main

import (
	"fmt"
	"go/token"
	"go/types"
	"math/big"
	"strings"

	"golang.org/x/tools/go/ssa"
)

// findParams returns the first *Buffer parameter and the first slice parameter.
func findParams(fn *ssa.Function) (bufName, sliceName string) {
	for _, p := range fn.Params {
		if isBufferPtr(p.Type()) && bufName == "" {
			bufName = p.Name()
		}
		if _, ok := p.Type().Underlying().(*types.Slice); ok && sliceName == "" {
			sliceName = p.Name()
		}
	}
	return
}

func checkC01(c *Checker) {
	c.rule("C01-R1", "layout: BufferIndex(channel, idx) = channels*idx + channel; Sample(i) loads and SetSample(i,v) stores element i of the receiver's data", 3)
	c.rule("C01-R2", "interleaved region: Write/Read store exactly dst[i] <- conv(src[i]) for 0 <= i < min(len, len); bare conversion of the element with the same index", 2)
	c.rule("C01-R3", "striped regions: stores at channels*i + c for 0 <= c < channels, 0 <= i < W; value conv(src[c][i]) under i < len(src[c]) and 0 otherwise (writer); W = min(max_c len, Length)", 2)
	c.rule("C01-R4", "nothing else: no other store (header, other element, caller slice, global), no external effect, no explicit panic besides the shape guard", 4)
	c.rule("C01-R5", "count: return term = ceildiv(N, channels) (interleaved) resp. W / max_c min(len(dst[c]), Length) (striped)", 4)
	c.NotDecided = append(c.NotDecided, "exactness of ceil through float64 for lengths >= 2^53", "bounds-check panics of the striped forms on buffers that are not frame-aligned (excluded by the quantifier)",
		"that a conversion D(S(x)) returns x for values representable in both types is the Go specification, not re-derived")
	c.Assumptions = append(c.Assumptions, "channels >= 1 (C20 covers zero channels)", "index arithmetic does not overflow int", "caller slices never alias buffer storage (no API hands out the backing slice; checked by C12-V4)")

	// ---- R1
	if afn := c.anchor("C01-R1", "(channels).BufferIndex"); afn != nil {
		// evaluated through a buffer (probe b.BufferIndex(channel, idx) of the generated witness), so that the
		// rule does not depend on which embedded type declares the method
		fn := c.W.Fn("verifProbeIndex[int8]")
		if fn == nil {
			fn = afn
		}
		s := c.Summary(fn)
		if !c.undecidedEffects("C01-R1", "BufferIndex", s) {
			ret := mergedRet(retPaths(s))
			want := specAdd(specMul(mkAtom(paramName(fn, 0), intT), mkAtom(paramName(fn, 2), intT)), mkAtom(paramName(fn, 1), intT))
			if fn != afn {
				want = specAdd(specMul(buf{paramName(fn, 0)}.ch(), mkAtom(paramName(fn, 2), intT)), mkAtom(paramName(fn, 1), intT))
			}
			ok := ret != nil && eqInt(ret, want) && len(panicPaths(s)) == 0
			for _, o := range s.Outcomes {
				if len(mods(o)) > 0 {
					ok = false
				}
			}
			c.expect(ok, "C01-R1", "BufferIndex", c.pos(afn.Pos()), "return term = "+pretty(canon(want)), fmt.Sprintf("return term is %s, expected %s", pretty(canonOrNil(ret)), pretty(canon(want))))
		}
	}
	if fn := c.anchor("C01-R1", "(*Buffer[T]).Sample"); fn != nil {
		s := c.Summary(fn)
		if !c.undecidedEffects("C01-R1", "Buffer.Sample", s) {
			b := buf{paramName(fn, 0)}
			ret := mergedRet(retPaths(s))
			ok := ret != nil && isElemOf(ret, b.stor(), mkAtom(paramName(fn, 1), intT)) && len(panicPaths(s)) == 0 && len(retPaths(s)) == 1 && len(mods(retPaths(s)[0])) == 0
			c.expect(ok, "C01-R1", "Buffer.Sample", c.pos(fn.Pos()), "loads data[i]", "Sample(i) is not a plain load of data[i]: "+pretty(canonOrNil(ret)))
		}
	}
	if fn := c.anchor("C01-R1", "(*Buffer[T]).SetSample"); fn != nil {
		s := c.Summary(fn)
		if !c.undecidedEffects("C01-R1", "Buffer.SetSample", s) {
			b := buf{paramName(fn, 0)}
			ok := len(retPaths(s)) == 1 && len(panicPaths(s)) == 0
			detail := ""
			if ok {
				m := mods(retPaths(s)[0])
				ok = len(m) == 1 && m[0].Kind == EStoreElem && m[0].Stor.Name == b.stor() && eqInt(m[0].Idx, mkAtom(paramName(fn, 1), intT)) &&
					valTerm(m[0].Val) != nil && valTerm(m[0].Val).Key() == mkAtom(paramName(fn, 2), nil).Key() && len(m[0].Loops) == 0
				detail = describeEffects(m)
			}
			c.expect(ok, "C01-R1", "Buffer.SetSample", c.pos(fn.Pos()), "stores data[i] <- v", "SetSample(i,v) is not exactly one store data[i] <- v: "+detail)
		}
	}

	// ---- Write / Read
	for _, name := range []string{"Write", "Read"} {
		fn := c.anchor("C01-R2", name)
		if fn == nil {
			continue
		}
		s := c.Summary(fn)
		if c.undecidedEffects("C01-R2", name, s) {
			continue
		}
		bn, sn := findParams(fn)
		if bn == "" || sn == "" {
			c.undecided("C01-R2", name, c.pos(fn.Pos()), "expected one *Buffer and one slice parameter")
			continue
		}
		b := buf{bn}
		N := specMin(b.lenT(), mkAtom("len("+sn+")", intT))
		dstStor, srcStor := b.stor(), sn
		if name == "Read" {
			dstStor, srcStor = sn, b.stor()
		}
		assume := shapeAssume(b)
		if ps := panicPaths(s); len(ps) > 0 {
			c.refuted("C01-R4", name+"/panic-path", c.pos(ps[0].Pos), "explicit panic path in "+name+": "+ps[0].St.facts.String(), "")
		}
		nret := 0
		for _, o := range retPaths(s) {
			if !feasible(o, assume) {
				continue
			}
			nret++
			m := mods(o)
			here := shapeAssume(b)
			for _, fc := range o.St.facts.list {
				here.add(fc)
			}
			okRegion := len(m) == 1 && m[0].Kind == EStoreElem && m[0].Stor.Name == dstStor && len(m[0].Loops) == 1 &&
				eqUnder(m[0].Loops[0].Trip, N, here) && eqInt(m[0].Idx, m[0].Loops[0].K)
			if okRegion {
				inner, n := stripConv(valTerm(m[0].Val))
				okRegion = n <= 1 && isElemOf(inner, srcStor, m[0].Loops[0].K)
			}
			nExtra := len(m) - 1
			if !okRegion && len(m) > 1 {
				// the copy spelled as several loops (blocks of samples and a tail, a peeled iteration): every store must be
				// dst[p] <- conv(src[p]) and the positions together must be exactly [0, N)
				var regs []region
				allStores := true
				for _, e := range m {
					rg, ok := regionOf(e)
					v := valTerm(e.Val)
					if !ok || e.Kind != EStoreElem || e.Stor.Name != dstStor || rg.srcStor == nil || rg.srcStor.Name != srcStor || v == nil {
						allStores = false
						break
					}
					if _, n := stripConv(v); n > 1 {
						allStores = false
						break
					}
					// same position on both sides
					if !rg.srcStart.Equal(rg.start) {
						allStores = false
						break
					}
					regs = append(regs, rg)
				}
				if allStores {
					merged := normalizeRegions(regs, here)
					if len(merged) == 1 && merged[0].stride <= 1 && merged[0].start.IsZero() && eqUnder(merged[0].count.toTerm(), N, here) {
						okRegion, nExtra = true, 0
					}
				}
			}
			where := c.pos(fn.Pos())
			if len(m) > 0 {
				where = c.effPos(m[0])
			}
			c.expect(okRegion, "C01-R2", name, where, fmt.Sprintf("%s[i] <- conv(%s[i]), 0 <= i < %s", dstStor, srcStor, pretty(N)),
				fmt.Sprintf("effects are not the single region %s[i] <- conv(%s[i]), i < %s: %s", dstStor, srcStor, pretty(N), describeEffects(m)))
			c.expect(nExtra <= 0, "C01-R4", name, where, "no other store or external effect", "additional effects: "+describeEffects(m))
			ret := valTerm(o.Ret)
			want := specCeilDiv(N, b.ch())
			asm := shapeAssume(b)
			asm.add(Cond{Kind: CGE0, P: normInt(mkAtom("len("+sn+")", intT))})
			for _, fc := range o.St.facts.list {
				asm.add(fc)
			}
			okRet := ret != nil && eqUnder(ret, want, asm)
			c.expect(okRet, "C01-R5", name, c.pos(o.Pos), "returns "+pretty(want), fmt.Sprintf("returns %s, expected %s", pretty(canonOrNil(ret)), pretty(want)))
		}
		if nret == 0 {
			c.undecided("C01-R2", name, c.pos(fn.Pos()), "no feasible return path")
		}
	}

	// ---- WriteStriped / ReadStriped: regions are compared as index sets (see stripedRegion)
	if fn := c.anchor("C01-R3", "WriteStriped"); fn != nil {
		s := c.Summary(fn)
		if !c.undecidedEffects("C01-R3", "WriteStriped", s) {
			bn, sn := findParams(fn)
			b := buf{bn}
			assume := shapeAssume(b)
			guard := Cond{Kind: CNE0, P: normSign(normInt(b.ch()).Sub(normInt(mkAtom("len("+sn+")", intT))))}
			for _, o := range panicPaths(s) {
				if !hasFact(o.St.facts, guard) {
					c.refuted("C01-R4", "WriteStriped/panic-path", c.pos(o.Pos), "explicit panic path other than the shape guard: "+o.St.facts.String(), "")
				}
			}
			nret := 0
			for _, o := range retPaths(s) {
				if !feasible(o, assume) {
					continue
				}
				nret++
				where := c.pos(fn.Pos())
				W := valTerm(o.Ret)
				okW := W != nil && isStripedWidth(W, sn, b, assume)
				c.expect(okW, "C01-R5", "WriteStriped", c.pos(o.Pos), "returns W = min(max_c len(src[c]), Length(dst))",
					fmt.Sprintf("returns %s, expected the write width W = min(max_c len(src[c]), Length(dst))", pretty(canonOrNil(W))))
				if !okW {
					continue
				}
				okA, okB, extra := false, false, 0
				why := ""
				var matchedA, matchedB []*Effect
				m := mods(o)
				for _, e := range m {
					rg, err := stripedRegion(e, b, sn, assume, o.St.facts, W)
					if err != "" || e.Stor.Name != b.stor() {
						extra++
						why = err
						continue
					}
					rowLen := mkAtom(fmt.Sprintf("len(%s[%s])", sn, pretty(rg.c)), intT)
					filled := specMin(rowLen, W)
					rowName := fmt.Sprintf("%s[%s]", sn, pretty(rg.c))
					switch {
					case !rg.zero && rg.srcStor != nil && rg.srcStor.Name == rowName && eqInt(rg.srcIdx, rg.i) &&
						eqUnder(rg.lo, zeroT(), rg.facts) && eqUnder(rg.hi, filled, rg.facts) && disjointFrom(e, matchedA):
						okA = true
						matchedA = append(matchedA, e)
					case rg.zero && eqUnder(rg.lo, filled, rg.facts) && eqUnder(rg.hi, W, rg.facts) && disjointFrom(e, matchedB):
						okB = true
						matchedB = append(matchedB, e)
					default:
						extra++
						why = fmt.Sprintf("region [%s, %s) of %s is neither the copied prefix [0, min(len(src[c]), W)) nor the zero fill [min(len(src[c]), W), W)",
							pretty(simplifyUnder(rg.lo, rg.facts)), pretty(simplifyUnder(rg.hi, rg.facts)), e.String())
					}
				}
				c.expect(okA && okB, "C01-R3", "WriteStriped", where, "data[channels*i+c] <- conv(src[c][i]) for i < min(len(src[c]), W), 0 for the rest up to W, every channel c",
					fmt.Sprintf("striped write regions not recognised (copy region found: %v, zero-fill region found: %v) %s: %s", okA, okB, why, describeEffects(m)))
				c.expect(extra == 0, "C01-R4", "WriteStriped", where, "no other store or external effect", fmt.Sprintf("%d effects outside the two striped regions (%s): %s", extra, why, describeEffects(m)))
			}
			if nret == 0 {
				c.undecided("C01-R3", "WriteStriped", c.pos(fn.Pos()), "no feasible return path")
			}
		}
	}
	if fn := c.anchor("C01-R3", "ReadStriped"); fn != nil {
		s := c.Summary(fn)
		if !c.undecidedEffects("C01-R3", "ReadStriped", s) {
			bn, sn := findParams(fn)
			b := buf{bn}
			assume := shapeAssume(b)
			guard := Cond{Kind: CNE0, P: normSign(normInt(b.ch()).Sub(normInt(mkAtom("len("+sn+")", intT))))}
			for _, o := range panicPaths(s) {
				if !hasFact(o.St.facts, guard) {
					c.refuted("C01-R4", "ReadStriped/panic-path", c.pos(o.Pos), "explicit panic path other than the shape guard: "+o.St.facts.String(), "")
				}
			}
			nret := 0
			for _, o := range retPaths(s) {
				if !feasible(o, assume) {
					continue
				}
				nret++
				m := mods(o)
				okR, extra := false, 0
				why := ""
				var outerL *LoopCtx
				var matched []*Effect
				for _, e := range m {
					if e.Kind != EStoreElem || len(e.Loops) != 2 || e.Stor.Parent == nil || e.Stor.Parent.Name != sn {
						extra++
						continue
					}
					outer, inner := e.Loops[0], e.Loops[1]
					cT := e.Stor.ParentIdx // the row dst[c] that is written
					if !(eqUnder(outer.Trip, b.ch(), assume) || eqInt(outer.Trip, mkAtom("len("+sn+")", intT))) || !eqInt(cT, outer.K) {
						extra++
						why = "outer loop is not over the channels"
						continue
					}
					iP := normInt(e.Idx)
					co, other := iP.coefOf(inner.K)
					if other || co.Cmp(bigOne) != 0 {
						extra++
						why = "row position is not the inner loop index"
						continue
					}
					base := iP.Sub(normInt(inner.K))
					facts := assume.clone()
					for _, fc := range e.Facts.list {
						if fc.Tag != "loop" {
							facts.add(fc)
						}
					}
					rowLen := mkAtom(fmt.Sprintf("len(%s[%s])", sn, pretty(canon(cT))), intT)
					facts.add(Cond{Kind: CGE0, P: normInt(rowLen)})
					facts = simplifyFacts(facts, assume)
					lo, hi := base.toTerm(), base.Add(inner.TripPoly).toTerm()
					inner2, n := stripConv(valTerm(e.Val))
					wantHi := specMin(rowLen, b.length())
					if eqUnder(lo, zeroT(), facts) && eqUnder(hi, wantHi, facts) && n <= 1 &&
						inner2 != nil && inner2.Op == OpElem && inner2.Stor != nil && inner2.Stor.Name == b.stor() &&
						eqUnder(underGuard(inner2.Args[0], b, sn), specAdd(specMul(b.ch(), e.Idx), cT), facts) && disjointFrom(e, matched) {
						okR = true
						outerL = outer
						matched = append(matched, e)
					} else {
						extra++
						why = fmt.Sprintf("region [%s, %s) <- %s", pretty(simplifyUnder(lo, facts)), pretty(simplifyUnder(hi, facts)), valString(e.Val))
					}
				}
				where := c.pos(fn.Pos())
				c.expect(okR, "C01-R3", "ReadStriped", where, "dst[c][i] <- conv(data[channels*i+c]), c < channels, i < min(len(dst[c]), Length(src))",
					"striped read region not recognised ("+why+"): "+describeEffects(m))
				c.expect(extra == 0, "C01-R4", "ReadStriped", where, "no other store or external effect", fmt.Sprintf("%d effects outside the striped region (%s): %s", extra, why, describeEffects(m)))
				ret := valTerm(o.Ret)
				okRet := false
				if ret != nil && outerL != nil {
					cr := canon(ret)
					if cr.Op == OpFold && cr.Name == "max" && cr.Loop == outerL {
						chName := fmt.Sprintf("%s[%s]", sn, pretty(canon(outerL.K)))
						if z, isC := normIntConst(cr.Args[0]); isC && z == 0 && eqUnder(cr.Args[1], specMin(mkAtom("len("+chName+")", intT), b.length()), assume) {
							okRet = true
						}
					}
				}
				c.expect(okRet, "C01-R5", "ReadStriped", c.pos(o.Pos), "returns max_c min(len(dst[c]), Length(src))", fmt.Sprintf("returns %s, expected max_c min(len(dst[c]), Length(src))", pretty(canonOrNil(ret))))
			}
			if nret == 0 {
				c.undecided("C01-R3", "ReadStriped", c.pos(fn.Pos()), "no feasible return path")
			}
		}
	}
	if fn := c.anchor("C01-R5", "ChannelLength"); fn != nil {
		s := c.Summary(fn)
		if !c.undecidedEffects("C01-R5", "ChannelLength", s) {
			a, d := mkAtom(paramName(fn, 0), intT), mkAtom(paramName(fn, 1), intT)
			ret := mergedRet(retPaths(s))
			asm := &Facts{}
			asm.add(Cond{Kind: CGE0, P: normInt(d).AddInt(-1)})
			asm.add(Cond{Kind: CGE0, P: normInt(a)})
			ok := ret != nil && eqUnder(ret, specCeilDiv(a, d), asm)
			c.expect(ok, "C01-R5", "ChannelLength", c.pos(fn.Pos()), "ceildiv(sliceLen, channels)", fmt.Sprintf("returns %s, expected ceildiv(%s, %s)", pretty(canonOrNil(ret)), a.Name, d.Name))
		}
	}
}

func canonOrNil(t *Term) *Term {
	if t == nil {
		return mkUnknown("no scalar return term", nil)
	}
	return canon(t)
}

func normIntConst(t *Term) (int64, bool) {
	if t == nil {
		return 0, false
	}
	if t.Op == OpConst && t.C != nil {
		if f, ok := constFloat(t); ok && f == 0 {
			return 0, true
		}
	}
	if !isIntLike(t.Typ) && !isTypeParam(t.Typ) {
		return 0, false
	}
	v, ok := normInt(t).IsConst()
	if !ok || !v.IsInt64() {
		return 0, false
	}
	return v.Int64(), true
}

// isStripedWidth: t = min(fold-max over c < len(src) of len(src[c]) from 0, Length(dst)).
func isStripedWidth(t *Term, sn string, b buf, assume *Facts) bool {
	ct := canon(t)
	if ct.Op != OpMin || len(ct.Args) != 2 {
		return false
	}
	for i := 0; i < 2; i++ {
		f, l := ct.Args[i], ct.Args[1-i]
		if f.Op != OpFold || f.Name != "max" || f.Loop == nil {
			continue
		}
		if !eqUnder(l, b.length(), assume) {
			continue
		}
		if z, ok := normIntConst(f.Args[0]); !ok || z != 0 {
			continue
		}
		if !(eqInt(f.Loop.Trip, mkAtom("len("+sn+")", intT)) || eqInt(f.Loop.Trip, b.ch())) {
			continue
		}
		want := mkAtom(fmt.Sprintf("len(%s[%s])", sn, pretty(canon(f.Loop.K))), intT)
		// a maximum does not depend on the order of the scan: rows visited last-to-first are the same set
		rev := mkBin(token.SUB, mkBin(token.SUB, f.Loop.Trip, mkInt(1, intT), intT), f.Loop.K, intT)
		wantRev := mkAtom(fmt.Sprintf("len(%s[%s])", sn, pretty(canon(rev))), intT)
		if eqInt(f.Args[1], want) || eqInt(f.Args[1], wantRev) {
			return true
		}
	}
	return false
}

// sregion is one striped store read as an index set: for the channel c of the outer loop, the frames
// i in [lo, hi) are written at interleaved position channels*i + c.
type sregion struct {
	c       *Term // channel (outer loop counter)
	i       *Term // frame index as a term in the inner loop counter
	lo, hi  *Term
	zero    bool
	srcStor *Storage
	srcIdx  *Term
	facts   *Facts
}

// divByAtom divides a polynomial by an atom (every monomial must contain it).
func divByAtom(p *Poly, atom *Term) (*Poly, bool) {
	r := newPoly()
	for _, mo := range p.m {
		idx := -1
		for j, f := range mo.factors {
			if f.Key() == atom.Key() {
				idx = j
				break
			}
		}
		if idx < 0 {
			return nil, false
		}
		fs := append(append([]*Term{}, mo.factors[:idx]...), mo.factors[idx+1:]...)
		r.addMonom(factorsKey(fs), mo.coef, fs)
	}
	return r, true
}

// stripedRegion reads a store of WriteStriped as the set of frames it covers. Both the single loop with a
// per-sample branch and the split form (copy loop followed by a zero-fill loop), with a computed position
// or a running one, give the same sets.
func stripedRegion(e *Effect, b buf, rows string, assume, pathFacts *Facts, W *Term) (sregion, string) {
	if e.Kind != EStoreElem || len(e.Loops) != 2 {
		return sregion{}, "not a store in a channel/frame loop nest: " + e.String()
	}
	outer, inner := e.Loops[0], e.Loops[1]
	rg := sregion{c: canon(outer.K)}
	p := normInt(underGuard(e.Idx, b, rows)).Sub(normInt(outer.K))
	iP, ok := divByAtom(p, canon(b.ch()))
	if !ok {
		return rg, "position is not channels*i + c"
	}
	co, other := iP.coefOf(inner.K)
	if other || co.Cmp(bigOne) != 0 {
		return rg, "frame index does not advance by one per iteration"
	}
	rg.i = iP.toTerm()
	base := iP.Sub(normInt(inner.K))
	lo, hi := base.toTerm(), base.Add(inner.TripPoly).toTerm()
	facts := assume.clone()
	for _, fc := range pathFacts.list {
		facts.add(fc)
	}
	// branch decisions of the channel loop's body are plain facts
	for i := outer.FactBase; i < inner.FactBase && i < len(e.Facts.list); i++ {
		if e.Facts.list[i].Tag != "loop" {
			facts.add(e.Facts.list[i])
		}
	}
	// branch decisions inside the inner loop bound the frame index
	start := inner.FactBase
	if start > len(e.Facts.list) {
		start = len(e.Facts.list)
	}
	for _, fc := range e.Facts.list[start:] {
		if fc.Tag == "axiom" || fc.Tag == "loop" {
			if fc.Tag == "axiom" {
				facts.add(fc)
			}
			continue
		}
		if fc.Kind != CGE0 {
			if fc.P != nil && fc.P.mentions(func(x *Term) bool { return x.Key() == inner.K.Key() }) {
				return rg, "branch on the frame index that is not an ordering: " + fc.String()
			}
			continue
		}
		k, oth := fc.P.coefOf(inner.K)
		switch {
		case oth:
			return rg, "non-linear branch on the frame index: " + fc.String()
		case k.Sign() == 0:
			facts.add(fc)
		case k.Cmp(big.NewInt(-1)) == 0: // g - i - 1 >= 0  =>  i < g
			g := fc.P.Add(iP).AddInt(1).toTerm()
			hi = specMin(hi, g)
		case k.Cmp(bigOne) == 0: // i - g >= 0  =>  i >= g
			g := iP.Sub(fc.P).toTerm()
			lo = specMax(lo, g)
		default:
			return rg, "scaled branch on the frame index: " + fc.String()
		}
	}
	if !(eqUnder(outer.Trip, b.ch(), facts) || strings.HasPrefix(pretty(canon(outer.Trip)), "len(")) {
		return rg, "outer loop is not over the channels"
	}
	// every row length and the width are non-negative
	facts.add(Cond{Kind: CGE0, P: normInt(W)})
	e.Val.(*Term).walk(func(x *Term) bool { return true })
	v := valTerm(e.Val)
	if v == nil {
		return rg, "stored value is not scalar"
	}
	if z, isC := normIntConst(v); isC && z == 0 {
		rg.zero = true
	} else {
		inner2, n := stripConv(v)
		if n > 1 || inner2.Op != OpElem {
			return rg, "stored value is not a bare conversion of a source sample"
		}
		rg.srcStor, rg.srcIdx = inner2.Stor, inner2.Args[0]
		facts.add(Cond{Kind: CGE0, P: normInt(mkAtom("len("+inner2.Stor.Name+")", intT))})
	}
	// an empty interval is written as [min(lo,hi), hi)
	rg.lo, rg.hi = specMin(lo, hi), hi
	rg.facts = simplifyFacts(facts, assume)
	return rg, ""
}

// underGuard rewrites len(rows) to the channel count: the shape guard makes them equal on every path that
// gets past it, and a refactoring may use either as the stride.
func underGuard(t *Term, b buf, rows string) *Term {
	if t == nil {
		return t
	}
	return t.subst(map[string]*Term{"len(" + rows + ")": b.ch()})
}

// disjointFrom: the effect lies on a different path than every effect already matched (the same region explored
// once per branch of the enclosing loop body is one region, not two).
func disjointFrom(e *Effect, prev []*Effect) bool {
	for _, p := range prev {
		if !contradict(e.Facts, p.Facts) {
			return false
		}
	}
	return true
}
