package main

import (
	"fmt"
	"go/types"
	"strings"

	"golang.org/x/tools/go/ssa"
)

// hotPaths is the table of steady-state operations (resolved through the type-checker).
var hotPaths = []string{
	"(*Buffer[T]).Sample", "(*Buffer[T]).SetSample", "(*Buffer[T]).AppendSample", "(*Buffer[T]).Len", "(*Buffer[T]).Cap",
	"(*Buffer[T]).Length", "(*Buffer[T]).Capacity", "(*Buffer[T]).Channel", "(*Buffer[T]).Slice", "(*Buffer[D]).Append",
	"(C[T]).Sample", "(C[T]).SetSample", "(C[T]).BufferIndex", "(C[T]).Channels", "(C[T]).Length", "(C[T]).Capacity",
	"Read", "ReadStriped", "Write", "WriteStriped",
	"FloatAsFloat", "FloatAsSigned", "FloatAsUnsigned", "SignedAsFloat", "SignedAsSigned", "SignedAsUnsigned", "UnsignedAsFloat", "UnsignedAsSigned", "UnsignedAsUnsigned",
	"(*PoolAllocator[T]).Get", "(*PoolAllocator[T]).Put", "(channels).Channels", "(channels).BufferIndex",
}

// allowedExternal: library calls on hot paths, one line of reason each.
var allowedExternal = map[string]string{
	"(*sync.Pool).Get": "steady state: per-P slot, no allocation; the New refill path is the designed allocation",
	"(*sync.Pool).Put": "steady state: per-P slot, no allocation",
}

func checkC18(c *Checker) {
	c.rule("C18-H1", "no allocating construct on a non-panicking path of a hot function, except: the one view header in Slice; the growth branch of Append (cap < len+len); go/ssa's varargs array feeding an append proven in place", 33)
	c.rule("C18-H2", "every append outside the growth branch is proven non-growing", 2)
	c.rule("C18-H3", "external callees on hot paths are in the frozen table (sync.Pool.Get/Put; math and reflect calls are modelled and allocation-free)", 33)
	c.NotDecided = append(c.NotDecided, "allocation inside sync.Pool / reflect internals (trusted table)", "the compiler's stack-vs-heap decisions are cross-checked by the thorough tier (E6), not re-derived")
	c.Trusted = append(c.Trusted, "reflect.ValueOf(pointer).Elem().SetCap does not allocate (pointer-shaped interface, value does not escape)")
	var hot []*ssa.Function
	for _, name := range hotPaths {
		fn := c.anchor("C18-H1", name)
		if fn == nil {
			continue
		}
		hot = append(hot, fn)
		s := c.Summary(fn)
		inst := strings.NewReplacer("(*", "", "(", "", ")", "", "[T]", "", "[D]", "").Replace(name)
		if c.undecidedEffects("C18-H1", inst, s) {
			continue
		}
		okH1, okH2, okH3 := true, true, true
		var d1, d2, d3 string
		var fits *Cond
		if strings.HasSuffix(name, ".Append") {
			dst, src := buf{paramName(fn, 0)}, buf{paramName(fn, 1)}
			f := Cond{Kind: CGE0, P: normInt(dst.capT()).Sub(normInt(dst.lenT())).Sub(normInt(src.lenT()))}
			fits = &f
		}
		for _, o := range retPaths(s) {
			growth := fits != nil && o.St.facts.eval(*fits) == No
			nHeader := 0
			for _, e := range o.St.effects {
				switch e.Kind {
				case EGrow:
					if !growth {
						okH2, d2 = false, fmt.Sprintf("append that %s outside the growth branch at %s", e.Note, c.effPos(e))
					}
				case EAlloc:
					if growth {
						continue
					}
					switch {
					case e.Stor != nil && e.Stor.Kind == SGrown:
						// reported by H2
					case e.Obj != nil && isArrayType(e.Obj.Typ) && varargsOnlyInPlace(e.Obj, o):
						// go/ssa artefact: the one-element array of append(s, v); the append is in place
					case strings.HasSuffix(name, ".Slice") && e.Obj != nil && isBufferType(e.Obj.Typ) && isReturnedObject(o, e.Obj):
						// the one constant-size view header (wherever it is constructed: in Slice or in a constructor helper)
						nHeader++
					default:
						okH1, d1 = false, fmt.Sprintf("allocation on a hot path: %s at %s", e.Note, c.effPos(e))
					}
				case ECall:
					if _, ok := allowedExternal[e.Callee]; !ok {
						okH3, d3 = false, fmt.Sprintf("call of %s at %s is not in the allocation-free table", e.Callee, c.effPos(e))
					}
				}
			}
			if nHeader > 1 {
				okH1, d1 = false, fmt.Sprintf("Slice allocates %d headers", nHeader)
			}
		}
		// a caller's slice must not be turned into an interface value on ANY path, the panicking ones included: the
		// compiler's escape analysis is flow-insensitive, a parameter that leaks on the error path makes every caller
		// heap-allocate the scratch slices it passes (a lazily formatted message with %T or %v of the argument)
		for _, o := range s.Outcomes {
			for _, e := range o.St.effects {
				if e.Kind != EAlloc || !strings.HasPrefix(e.Note, "interface boxing") {
					continue
				}
				sv, isS := e.Val.(SliceV)
				if !isS || sv.Stor == nil {
					continue
				}
				root := sv.Stor
				for root.Parent != nil {
					root = root.Parent
				}
				for _, pa := range fn.Params {
					if _, isSl := pa.Type().Underlying().(*types.Slice); isSl && pa.Name() == root.Name {
						okH1, d1 = false, fmt.Sprintf("the caller's slice %s is boxed into an interface at %s (on a %s path): the parameter leaks, so callers that pass stack scratch slices allocate on every call", pa.Name(), c.effPos(e), map[bool]string{true: "panicking", false: "returning"}[o.Kind == OPanic])
					}
				}
			}
		}
		p := c.pos(fn.Pos())
		c.expect(okH1, "C18-H1", inst, p, "no allocating construct outside the allowed ones", d1)
		if strings.HasSuffix(name, ".Append") || strings.HasSuffix(name, ".AppendSample") {
			c.expect(okH2, "C18-H2", inst, p, "appends are in place outside the growth branch", d2)
		} else if !okH2 {
			c.refuted("C18-H2", inst, p, d2, "")
		}
		c.expect(okH3, "C18-H3", inst, p, "external callees within the table", d3)
	}
	// H4: the pool cycle is allocation-free only if Put really recycles: a path of Put that returns without
	// handing the caller's buffer to sync.Pool.Put makes the next Get allocate a new one
	c.rule("C18-H4", "recycling: every returning path of PoolAllocator.Put passes the caller's buffer to sync.Pool.Put, and Get returns the pool's value without a conditional fresh allocation", 1)
	// the pool a Get/Put cycle recycles through must be the one PoolAlloc created: a PoolAllocator is passed by value,
	// and a pool made lazily by the first Get or Put belongs to that copy only (a producer's Get never sees what a
	// consumer's copy Put back, so every cycle allocates although no allocation site was added to the hot path)
	if pm := c.poolModel(); pm != nil {
		fnP := c.anchor("C18-H4", "PoolAlloc")
		pos := ""
		if fnP != nil {
			pos = c.pos(fnP.Pos())
		}
		c.expect(pm.ok, "C18-H4", "PoolAlloc/shared-pool", pos, "the constructor creates the sync.Pool that every copy of the allocator shares", "the sync.Pool is not created by PoolAlloc ("+pm.why+"): copies of the allocator do not share one pool")
	}
	if fn := c.anchor("C18-H4", "(*PoolAllocator[T]).Put"); fn != nil && len(fn.Params) == 2 {
		s := c.Summary(fn)
		if !c.undecidedEffects("C18-H4", "PoolAllocator.Put", s) {
			ok, d := len(retPaths(s)) > 0, "no returning path"
			bn := "*" + paramName(fn, 1)
			for _, o := range retPaths(s) {
				found := false
				for _, e := range effectsOf(o, ECall) {
					if e.Callee != "(*sync.Pool).Put" {
						continue
					}
					for _, a := range e.Args {
						if iv, isI := a.(IfaceV); isI {
							a = iv.Dyn
						}
						if p, isP := a.(PtrV); isP && p.Obj != nil && p.Obj.Name == bn && len(p.Path) == 0 {
							found = true
						}
					}
				}
				if !found {
					ok, d = false, "a path of Put returns without recycling the caller's buffer: "+factsBrief(o.St.facts)
				}
			}
			c.expect(ok, "C18-H4", "PoolAllocator.Put", c.pos(fn.Pos()), "the buffer reaches sync.Pool.Put on every returning path", d)
		}
	}
	// H5: "within capacity" must mean the same for a window and for its parent. A window that drops part of the
	// remaining storage of its parent makes Append reallocate although the shared storage would hold the samples
	// (C02-R1: the window is data[start:end], which keeps the whole remaining capacity).
	c.rule("C18-H5", "a window keeps the whole remaining capacity of its parent, so appending within the shared storage's capacity stays in place (C02-R1)", 1)
	subS := newChecker(c.Prop, c.Tier, c.Seed, c.verifDir)
	subS.W = c.W
	subS.sums = c.sums
	checkC02(subS)
	for _, o := range subS.Obligs {
		if o.Rule == "C02-R1" {
			c.add("C18-H5", o.Rule+"/"+o.Instance, o.Pos, o.Verdict, o.Detail, o.Witness)
		}
	}
	if c.Tier == "thorough" {
		compilerCrossCheck(c, hot)
	}
}

func isReturnedObject(o Outcome, obj *Object) bool {
	p, ok := o.Ret.(PtrV)
	return ok && p.Obj == obj && len(p.Path) == 0
}

func isArrayType(t types.Type) bool {
	_, ok := t.Underlying().(*types.Array)
	return ok
}

// varargsOnlyInPlace: the array object is only the operand of appends that were proven in place on this path.
func varargsOnlyInPlace(obj *Object, o Outcome) bool {
	for _, e := range o.St.effects {
		if e.Kind == EGrow && e.Src != nil && e.Src.Stor != nil && e.Src.Stor.Obj == obj {
			return false
		}
		if e.Kind == ECall {
			for _, a := range e.Args {
				if p, ok := a.(PtrV); ok && p.Obj == obj {
					return false
				}
				if sv, ok := a.(SliceV); ok && sv.Stor != nil && sv.Stor.Obj == obj {
					return false
				}
			}
		}
		if e.Kind == EStoreField {
			if sv, ok := e.Val.(SliceV); ok && sv.Stor != nil && sv.Stor.Obj == obj {
				return false
			}
			if p, ok := e.Val.(PtrV); ok && p.Obj == obj {
				return false
			}
		}
	}
	return true
}

// ---------------- C19 ----------------

func checkC19(c *Checker) {
	c.rule("C19-N1", "read paths are pure: no store rooted at the receiver/source (header or elements), no global, no external effect; only fresh objects and the caller-supplied destination are written", 25)
	c.rule("C19-N2", "writers usable through a Slice window (sample setters, Write, WriteStriped, the conversions as destination) store only through bounds-checked indices of the destination header's own slice and write no header field", 13)
	c.rule("C19-N3", "no package-level variable, sync/atomic use or lazy initialisation that a reachable function writes", 1)
	c.NotDecided = append(c.NotDecided, "the race detector's dynamic verdict", "tearing of multi-word loads on exotic platforms", "equality with the sequential result follows from N1-N3 (no path reads state another goroutine writes); it is not executed")
	readers := []struct {
		name string
		src  int // index of the shared (read-only) parameter
		dst  int // index of a caller-owned destination (-1: none)
	}{
		{"(*Buffer[T]).Sample", 0, -1}, {"(*Buffer[T]).Len", 0, -1}, {"(*Buffer[T]).Cap", 0, -1}, {"(*Buffer[T]).Length", 0, -1}, {"(*Buffer[T]).Capacity", 0, -1},
		{"(channels).Channels", 0, -1}, {"(bitDepth).BitDepth", 0, -1}, {"(channels).BufferIndex", 0, -1}, {"(*Buffer[T]).Slice", 0, -1}, {"(*Buffer[T]).Channel", 0, -1},
		{"Read", 0, 1}, {"ReadStriped", 0, 1},
		{"(C[T]).Sample", 0, -1}, {"(C[T]).BufferIndex", 0, -1}, {"(C[T]).Channels", 0, -1}, {"(C[T]).Length", 0, -1}, {"(C[T]).Capacity", 0, -1},
	}
	for _, n := range conversionNames {
		readers = append(readers, struct {
			name string
			src  int
			dst  int
		}{n, 0, 1})
	}
	for _, r := range readers {
		fn := c.anchor("C19-N1", r.name)
		if fn == nil {
			continue
		}
		s := c.Summary(fn)
		inst := shortFn(c.W, fn)
		if c.undecidedEffects("C19-N1", inst, s) {
			continue
		}
		srcRoot := paramName(fn, r.src)
		dstRoot := ""
		if r.dst >= 0 {
			dstRoot = paramName(fn, r.dst)
		}
		ok := true
		detail := ""
		for _, o := range s.Outcomes {
			for _, e := range mods(o) {
				root := effectRoot(e)
				switch {
				case dstRoot != "" && root == dstRoot && (e.Kind == EStoreElem || e.Kind == ECopy || e.Kind == EClear):
				default:
					ok = false
					detail = fmt.Sprintf("read path writes or calls out: %s (rooted at %q, shared operand %q) at %s", e.String(), root, srcRoot, c.effPos(e))
				}
			}
		}
		c.expect(ok, "C19-N1", inst, c.pos(fn.Pos()), "pure with respect to the shared operand", detail)
	}
	writers := []struct {
		name string
		dst  int
	}{{"(*Buffer[T]).SetSample", 0}, {"Write", 1}, {"WriteStriped", 1}, {"(C[T]).SetSample", 0}}
	// a conversion writes its destination: used through a window it is a writer like Write
	for _, n := range conversionNames {
		writers = append(writers, struct {
			name string
			dst  int
		}{n, 1})
	}
	for _, wr := range writers {
		fn := c.anchor("C19-N2", wr.name)
		if fn == nil {
			continue
		}
		s := c.Summary(fn)
		inst := shortFn(c.W, fn)
		if c.undecidedEffects("C19-N2", inst, s) {
			continue
		}
		dstRoot := paramName(fn, wr.dst)
		ok := true
		detail := ""
		for _, o := range s.Outcomes {
			for _, e := range mods(o) {
				if e.Kind == EStoreElem && effectRoot(e) == dstRoot && strings.HasSuffix(e.Stor.Name, hdrLayout.dataSuffix()) {
					// the store must be bounds-checked against the view's own length: the indexed slice is the
					// header's data as loaded (not re-extended into the capacity, which other windows share)
					lenAtom := mkAtom("len("+e.Stor.Name+")", intT)
					bounded := false
					for _, ix := range o.St.effects {
						if ix.Kind != EIndex || ix.Note == "slice" || ix.Stor != e.Stor || ix.Seq >= e.Seq || !eqInt(ix.Hi, lenAtom) {
							continue
						}
						// the bounds check of the very element that is stored (in the store statement itself, or where
						// the element's address was taken)
						if ix.Pos == e.Pos || (ix.Dst != nil && ix.Idx != nil && normInt(ix.Dst.Off).Add(normInt(ix.Idx)).Equal(normInt(e.Idx))) {
							bounded = true
						}
					}
					if !bounded && !e.Facts.impliesGE0(normInt(lenAtom).Sub(normInt(e.Idx)).AddInt(-1)) {
						ok = false
						detail = fmt.Sprintf("store is not bounds-checked against the view's own length (the slice was extended into the shared capacity): %s at %s", e.String(), c.effPos(e))
					}
					continue
				}
				ok = false
				detail = fmt.Sprintf("writer effect other than an indexed store into the destination's own slice: %s at %s", e.String(), c.effPos(e))
			}
		}
		c.expect(ok, "C19-N2", inst, c.pos(fn.Pos()), "indexed stores into the view's own window only", detail)
	}
	// N4: storage sharing only through Slice. A read-only use of a shared buffer (e.g. as the source of Append or of
	// a conversion) must not leave another buffer's header pointing into the shared storage, otherwise a later
	// "private" write races with the readers. This is C12-V2/V4 (new data derives from the header's own old data;
	// no backing slice is handed out), re-evaluated here.
	c.rule("C19-N4", "no operation makes a header point into another buffer's storage or hands out a backing slice (C12-V2, C12-V4)", 20)
	sub := newChecker(c.Prop, c.Tier, c.Seed, c.verifDir)
	sub.W = c.W
	sub.sums = c.sums
	checkC12(sub)
	for _, o := range sub.Obligs {
		if o.Rule == "C12-V2" || o.Rule == "C12-V4" {
			c.add("C19-N4", o.Rule+"/"+o.Instance, o.Pos, o.Verdict, o.Detail, o.Witness)
		}
	}
	// N5: a window is a private header. Slice must build a fresh header on every path, otherwise a header-changing
	// operation (Append, AppendSample, Put) on the "window" rewrites the header other goroutines are reading (C02-R2).
	c.rule("C19-N5", "every window is a private header over exactly the frames asked for: Slice returns a fresh object on every path, does not write the receiver (C02-R2) and reslices the storage at channels*start (C02-R1)", 3)
	sub2 := newChecker(c.Prop, c.Tier, c.Seed, c.verifDir)
	sub2.W = c.W
	sub2.sums = c.sums
	checkC02(sub2)
	for _, o := range sub2.Obligs {
		// R2: the window is a private header; R1: it is the window that was asked for (a writer "confined to its
		// own frame range through Slice" is confined only if Slice(k, k) starts at frame k and not somewhere else)
		if o.Rule == "C02-R2" || o.Rule == "C02-R1" {
			c.add("C19-N5", o.Rule+"/"+o.Instance, o.Pos, o.Verdict, o.Detail, o.Witness)
		}
	}
	// N3: package-level variables
	var globals []string
	for name, m := range c.W.SSA.Members {
		if g, ok := m.(*ssa.Global); ok {
			if name == "init$guard" || name == "verifWitness" {
				continue
			}
			globals = append(globals, g.Name())
		}
	}
	okN3 := true
	d3 := fmt.Sprintf("package-level variables: %v", globals)
	for _, fn := range c.entryFunctions() {
		s := c.Summary(fn)
		for _, o := range s.Outcomes {
			for _, e := range o.St.effects {
				if (e.Kind == EStoreField || e.Kind == ESetCap) && e.Obj != nil && e.Obj.Kind == OGlobal {
					okN3 = false
					d3 = fmt.Sprintf("%s writes package-level variable %s at %s", shortFn(c.W, fn), e.Obj.Name, c.effPos(e))
				}
				if e.Kind == ECall && strings.HasPrefix(e.Callee, "sync/atomic") {
					okN3 = false
					d3 = fmt.Sprintf("%s uses %s at %s", shortFn(c.W, fn), e.Callee, c.effPos(e))
				}
			}
		}
	}
	c.expect(okN3, "C19-N3", "package/globals", "", d3, d3)
}

// effectRoot names the parameter an effect's target is reached from.
func effectRoot(e *Effect) string {
	switch e.Kind {
	case EStoreElem, ECopy, EClear:
		if e.Stor == nil {
			return ""
		}
		s := e.Stor
		for s.Parent != nil {
			s = s.Parent
		}
		n := s.Name
		if s.Kind != SEntry {
			return "<fresh>"
		}
		if i := strings.IndexAny(n, ".["); i >= 0 {
			n = n[:i]
		}
		return n
	case EStoreField, ESetCap:
		if e.Obj == nil {
			return ""
		}
		if e.Obj.Kind == OGlobal {
			return "<global>"
		}
		return e.Obj.Root
	}
	return "<external>"
}
