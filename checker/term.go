package main

// Term language of the shape engine (E3) and of the numeric abstract
// interpreter (E4). A Term is an immutable expression tree built by the
// symbolic SSA interpreter; constant sub-terms of concrete basic type are
// folded with exact Go semantics (wrap-around for integers, IEEE rounding
// for floats). Nothing here executes code of the analysed package.

import (
	"fmt"
	"go/constant"
	"go/token"
	"go/types"
	"math"
	"math/big"
	"sort"
	"strings"
)

type Op int

const (
	OpConst Op = iota
	OpAtom
	OpAdd
	OpSub
	OpMul
	OpDiv
	OpRem
	OpShl
	OpShr
	OpAnd
	OpOr
	OpXor
	OpAndNot
	OpNeg
	OpBitNot
	OpConv
	OpCmp
	OpLNot
	OpIte
	OpElem
	OpCall
	OpFold
	OpMin
	OpMax
	OpCeilDiv
	OpUnknown
)

var opNames = map[Op]string{OpConst: "const", OpAtom: "atom", OpAdd: "+", OpSub: "-", OpMul: "*", OpDiv: "/", OpRem: "%",
	OpShl: "<<", OpShr: ">>", OpAnd: "&", OpOr: "|", OpXor: "^", OpAndNot: "&^", OpNeg: "neg", OpBitNot: "bitnot", OpConv: "conv",
	OpCmp: "cmp", OpLNot: "!", OpIte: "ite", OpElem: "elem", OpCall: "call", OpFold: "fold", OpMin: "min", OpMax: "max",
	OpCeilDiv: "ceildiv", OpUnknown: "unknown"}

type Term struct {
	Op   Op
	Typ  types.Type
	Args []*Term
	C    constant.Value // OpConst
	Name string         // OpAtom, OpCall, OpUnknown (reason), OpFold kind ("max","min")
	Tok  token.Token    // OpCmp
	Stor *Storage       // OpElem
	Seq  int            // OpElem: number of effects recorded before the load on its path
	Loop *LoopCtx       // OpAtom that is a loop counter; OpFold
	Pos  token.Pos
	key  string
}

func (t *Term) isVal() {}

// sizes of int/uint/uintptr in the loaded configuration.
var wordBits = 64

type numKind struct {
	Float  bool
	Signed bool
	Bits   int
	OK     bool // concrete basic numeric type
	Bool   bool
	Str    bool
}

func kindOf(t types.Type) numKind {
	if t == nil {
		return numKind{}
	}
	b, ok := t.Underlying().(*types.Basic)
	if !ok {
		return numKind{}
	}
	switch b.Kind() {
	case types.Bool, types.UntypedBool:
		return numKind{Bool: true}
	case types.String, types.UntypedString:
		return numKind{Str: true}
	case types.Int:
		return numKind{Signed: true, Bits: wordBits, OK: true}
	case types.Int8:
		return numKind{Signed: true, Bits: 8, OK: true}
	case types.Int16:
		return numKind{Signed: true, Bits: 16, OK: true}
	case types.Int32:
		return numKind{Signed: true, Bits: 32, OK: true}
	case types.Int64:
		return numKind{Signed: true, Bits: 64, OK: true}
	case types.Uint:
		return numKind{Bits: wordBits, OK: true}
	case types.Uintptr:
		return numKind{Bits: wordBits, OK: true}
	case types.Uint8:
		return numKind{Bits: 8, OK: true}
	case types.Uint16:
		return numKind{Bits: 16, OK: true}
	case types.Uint32:
		return numKind{Bits: 32, OK: true}
	case types.Uint64:
		return numKind{Bits: 64, OK: true}
	case types.Float32:
		return numKind{Float: true, Bits: 32, OK: true}
	case types.Float64:
		return numKind{Float: true, Bits: 64, OK: true}
	case types.UntypedInt, types.UntypedRune:
		return numKind{Signed: true, Bits: 0, OK: false}
	}
	return numKind{}
}

func (k numKind) isInt() bool { return k.OK && !k.Float }

func (k numKind) minMax() (*big.Int, *big.Int) {
	if k.Signed {
		hi := new(big.Int).Lsh(big.NewInt(1), uint(k.Bits-1))
		lo := new(big.Int).Neg(hi)
		return lo, hi.Sub(hi, big.NewInt(1))
	}
	hi := new(big.Int).Lsh(big.NewInt(1), uint(k.Bits))
	return big.NewInt(0), hi.Sub(hi, big.NewInt(1))
}

func wrapBig(v *big.Int, k numKind) *big.Int {
	mod := new(big.Int).Lsh(big.NewInt(1), uint(k.Bits))
	r := new(big.Int).Mod(v, mod) // 0 <= r < mod
	if k.Signed {
		half := new(big.Int).Lsh(big.NewInt(1), uint(k.Bits-1))
		if r.Cmp(half) >= 0 {
			r.Sub(r, mod)
		}
	}
	return r
}

func bigOf(c constant.Value) (*big.Int, bool) {
	if c == nil || c.Kind() != constant.Int {
		if c != nil && c.Kind() == constant.Float {
			if i := constant.ToInt(c); i.Kind() == constant.Int {
				return bigOf(i)
			}
		}
		return nil, false
	}
	v := constant.Val(c)
	switch x := v.(type) {
	case int64:
		return big.NewInt(x), true
	case *big.Int:
		return new(big.Int).Set(x), true
	}
	return nil, false
}

func floatOf(c constant.Value) (float64, bool) {
	if c == nil {
		return 0, false
	}
	switch c.Kind() {
	case constant.Int, constant.Float:
		f, _ := constant.Float64Val(c)
		return f, true
	}
	return 0, false
}

func mkConst(c constant.Value, typ types.Type) *Term {
	return &Term{Op: OpConst, Typ: typ, C: c}
}

func mkInt(v int64, typ types.Type) *Term { return mkConst(constant.MakeInt64(v), typ) }

func mkBig(v *big.Int, typ types.Type) *Term { return mkConst(constant.Make(new(big.Int).Set(v)), typ) }

func mkFloat(f float64, typ types.Type) *Term {
	return &Term{Op: OpConst, Typ: typ, C: floatConst(f)}
}

// floatConst keeps Inf/NaN representable (go/constant cannot): they are encoded
// as strings.
func floatConst(f float64) constant.Value {
	if math.IsInf(f, 0) || math.IsNaN(f) {
		return constant.MakeString(fmt.Sprintf("float:%v", f))
	}
	return constant.MakeFloat64(f)
}

func constFloat(t *Term) (float64, bool) {
	if t.Op != OpConst || t.C == nil {
		return 0, false
	}
	if t.C.Kind() == constant.String {
		s := constant.StringVal(t.C)
		switch s {
		case "float:+Inf":
			return math.Inf(1), true
		case "float:-Inf":
			return math.Inf(-1), true
		case "float:NaN":
			return math.NaN(), true
		}
		return 0, false
	}
	return floatOf(t.C)
}

func mkBool(b bool) *Term { return mkConst(constant.MakeBool(b), types.Typ[types.Bool]) }

func mkAtom(name string, typ types.Type) *Term { return &Term{Op: OpAtom, Name: name, Typ: typ} }

func mkUnknown(why string, typ types.Type) *Term { return &Term{Op: OpUnknown, Name: why, Typ: typ} }

func (t *Term) IsConst() bool { return t != nil && t.Op == OpConst }

func (t *Term) ConstBool() (bool, bool) {
	if t.IsConst() && t.C.Kind() == constant.Bool {
		return constant.BoolVal(t.C), true
	}
	return false, false
}

func (t *Term) ConstInt() (*big.Int, bool) {
	if !t.IsConst() {
		return nil, false
	}
	if t.C.Kind() != constant.Int {
		return nil, false
	}
	return bigOf(t.C)
}

// Key returns a canonical string for structural equality.
func (t *Term) Key() string {
	if t == nil {
		return "<nil>"
	}
	if t.key != "" {
		return t.key
	}
	var sb strings.Builder
	switch t.Op {
	case OpConst:
		sb.WriteString("#")
		if t.C == nil {
			sb.WriteString("nil")
		} else {
			sb.WriteString(t.C.ExactString())
		}
		sb.WriteString(":")
		sb.WriteString(typeKey(t.Typ))
	case OpAtom:
		sb.WriteString("$")
		sb.WriteString(t.Name)
	case OpUnknown:
		sb.WriteString("?")
		sb.WriteString(t.Name)
	case OpElem:
		fmt.Fprintf(&sb, "elem(%s,%s)@%d", t.Stor.Key(), t.Args[0].Key(), t.Seq)
	case OpConv:
		fmt.Fprintf(&sb, "conv[%s<-%s](%s)", typeKey(t.Typ), typeKey(t.Args[0].Typ), t.Args[0].Key())
	case OpCmp:
		fmt.Fprintf(&sb, "cmp[%s](%s,%s)", t.Tok, t.Args[0].Key(), t.Args[1].Key())
	case OpCall:
		sb.WriteString("call[" + t.Name + "](")
		for i, a := range t.Args {
			if i > 0 {
				sb.WriteString(",")
			}
			sb.WriteString(a.Key())
		}
		sb.WriteString(")")
	case OpFold:
		fmt.Fprintf(&sb, "fold[%s,L%d](", t.Name, t.Loop.ID)
		for i, a := range t.Args {
			if i > 0 {
				sb.WriteString(",")
			}
			sb.WriteString(a.Key())
		}
		sb.WriteString(")")
	default:
		sb.WriteString(opNames[t.Op])
		sb.WriteString("[" + typeKey(t.Typ) + "](")
		for i, a := range t.Args {
			if i > 0 {
				sb.WriteString(",")
			}
			sb.WriteString(a.Key())
		}
		sb.WriteString(")")
	}
	t.key = sb.String()
	return t.key
}

func typeKey(t types.Type) string {
	if t == nil {
		return "_"
	}
	return types.TypeString(t, func(p *types.Package) string { return p.Name() })
}

func (t *Term) String() string { return pretty(t) }

func pretty(t *Term) string {
	if t == nil {
		return "<nil>"
	}
	switch t.Op {
	case OpConst:
		if t.C == nil {
			return "nil"
		}
		if t.C.Kind() == constant.String {
			s := constant.StringVal(t.C)
			if strings.HasPrefix(s, "float:") {
				return s[6:]
			}
			return fmt.Sprintf("%q", s)
		}
		return t.C.String()
	case OpAtom:
		return t.Name
	case OpUnknown:
		return "?(" + t.Name + ")"
	case OpElem:
		return fmt.Sprintf("%s[%s]", t.Stor.Name, pretty(t.Args[0]))
	case OpConv:
		return fmt.Sprintf("%s(%s)", typeKey(t.Typ), pretty(t.Args[0]))
	case OpCmp:
		return fmt.Sprintf("(%s %s %s)", pretty(t.Args[0]), t.Tok, pretty(t.Args[1]))
	case OpNeg:
		return "-(" + pretty(t.Args[0]) + ")"
	case OpBitNot:
		return "^(" + pretty(t.Args[0]) + ")"
	case OpLNot:
		return "!(" + pretty(t.Args[0]) + ")"
	case OpIte:
		return fmt.Sprintf("ite(%s, %s, %s)", pretty(t.Args[0]), pretty(t.Args[1]), pretty(t.Args[2]))
	case OpCall, OpMin, OpMax, OpCeilDiv, OpFold:
		name := t.Name
		if t.Op != OpCall {
			name = opNames[t.Op]
			if t.Op == OpFold {
				name = "fold-" + t.Name
			}
		}
		parts := make([]string, len(t.Args))
		for i, a := range t.Args {
			parts[i] = pretty(a)
		}
		return name + "(" + strings.Join(parts, ", ") + ")"
	}
	if len(t.Args) == 2 {
		return fmt.Sprintf("(%s %s %s)", pretty(t.Args[0]), opNames[t.Op], pretty(t.Args[1]))
	}
	return opNames[t.Op] + "(?)"
}

var binTok = map[token.Token]Op{token.ADD: OpAdd, token.SUB: OpSub, token.MUL: OpMul, token.QUO: OpDiv, token.REM: OpRem,
	token.SHL: OpShl, token.SHR: OpShr, token.AND: OpAnd, token.OR: OpOr, token.XOR: OpXor, token.AND_NOT: OpAndNot}

func isCmpTok(t token.Token) bool {
	switch t {
	case token.EQL, token.NEQ, token.LSS, token.LEQ, token.GTR, token.GEQ:
		return true
	}
	return false
}

// mkBin builds a binary operation, folding constants of concrete type with
// exact Go semantics.
func mkBin(tok token.Token, x, y *Term, typ types.Type) *Term {
	if isCmpTok(tok) {
		return mkCmp(tok, x, y)
	}
	op, ok := binTok[tok]
	if !ok {
		return mkUnknown("binop "+tok.String(), typ)
	}
	if r := foldBin(op, x, y, typ); r != nil {
		return r
	}
	return &Term{Op: op, Typ: typ, Args: []*Term{x, y}}
}

func foldBin(op Op, x, y *Term, typ types.Type) *Term {
	if (op == OpDiv || op == OpRem) && x.IsConst() && !y.IsConst() && kindOf(typ).isInt() {
		// 0/y = 0%y = 0 on every path that continues past the operation (y != 0 there; the
		// division itself is recorded as an obligation where it occurs)
		if a, ok := bigOf(x.C); ok && a.Sign() == 0 {
			return mkInt(0, typ)
		}
	}
	if !x.IsConst() || !y.IsConst() {
		return nil
	}
	k := kindOf(typ)
	if !k.OK {
		return nil
	}
	if k.Float {
		a, ok1 := constFloat(x)
		b, ok2 := constFloat(y)
		if !ok1 || !ok2 {
			return nil
		}
		var r float64
		if k.Bits == 32 {
			fa, fb := float32(a), float32(b)
			var fr float32
			switch op {
			case OpAdd:
				fr = fa + fb
			case OpSub:
				fr = fa - fb
			case OpMul:
				fr = fa * fb
			case OpDiv:
				fr = fa / fb
			default:
				return nil
			}
			r = float64(fr)
		} else {
			switch op {
			case OpAdd:
				r = a + b
			case OpSub:
				r = a - b
			case OpMul:
				r = a * b
			case OpDiv:
				r = a / b
			default:
				return nil
			}
		}
		return mkFloat(r, typ)
	}
	a, ok1 := bigOf(x.C)
	b, ok2 := bigOf(y.C)
	if !ok1 || !ok2 {
		return nil
	}
	r := new(big.Int)
	switch op {
	case OpAdd:
		r.Add(a, b)
	case OpSub:
		r.Sub(a, b)
	case OpMul:
		r.Mul(a, b)
	case OpDiv:
		if b.Sign() == 0 {
			return nil
		}
		r.Quo(a, b) // truncated, as Go
	case OpRem:
		if b.Sign() == 0 {
			return nil
		}
		r.Rem(a, b)
	case OpShl:
		if b.Sign() < 0 {
			return nil
		}
		if b.Cmp(big.NewInt(int64(k.Bits))) >= 0 {
			r.SetInt64(0)
		} else {
			r.Lsh(a, uint(b.Int64()))
		}
	case OpShr:
		if b.Sign() < 0 {
			return nil
		}
		if b.Cmp(big.NewInt(int64(k.Bits))) >= 0 {
			if a.Sign() < 0 {
				r.SetInt64(-1)
			} else {
				r.SetInt64(0)
			}
		} else {
			r.Rsh(a, uint(b.Int64())) // big.Int Rsh is arithmetic (floor)
		}
	case OpAnd:
		r.And(a, b)
	case OpOr:
		r.Or(a, b)
	case OpXor:
		r.Xor(a, b)
	case OpAndNot:
		r.AndNot(a, b)
	default:
		return nil
	}
	return mkBig(wrapBig(r, k), typ)
}

func mkCmp(tok token.Token, x, y *Term) *Term {
	bt := types.Typ[types.Bool]
	if x.IsConst() && y.IsConst() {
		kx := kindOf(x.Typ)
		if kx.OK && kx.Float {
			a, ok1 := constFloat(x)
			b, ok2 := constFloat(y)
			if ok1 && ok2 {
				var r bool
				switch tok {
				case token.EQL:
					r = a == b
				case token.NEQ:
					r = a != b
				case token.LSS:
					r = a < b
				case token.LEQ:
					r = a <= b
				case token.GTR:
					r = a > b
				case token.GEQ:
					r = a >= b
				}
				return mkBool(r)
			}
		} else if kx.OK || (x.C.Kind() == constant.Int && y.C.Kind() == constant.Int) {
			if x.C.Kind() == constant.Int && y.C.Kind() == constant.Int {
				return mkBool(constant.Compare(x.C, tok, y.C))
			}
		} else if x.C.Kind() == constant.Bool && y.C.Kind() == constant.Bool {
			if tok == token.EQL || tok == token.NEQ {
				return mkBool(constant.Compare(x.C, tok, y.C))
			}
		}
	}
	return &Term{Op: OpCmp, Tok: tok, Typ: bt, Args: []*Term{x, y}}
}

func mkNeg(x *Term, typ types.Type) *Term {
	if x.IsConst() {
		k := kindOf(typ)
		if k.OK && k.Float {
			if f, ok := constFloat(x); ok {
				return mkFloat(-f, typ)
			}
		} else if k.OK {
			if a, ok := bigOf(x.C); ok {
				return mkBig(wrapBig(a.Neg(a), k), typ)
			}
		}
	}
	return &Term{Op: OpNeg, Typ: typ, Args: []*Term{x}}
}

func mkBitNot(x *Term, typ types.Type) *Term {
	if x.IsConst() {
		k := kindOf(typ)
		if k.isInt() {
			if a, ok := bigOf(x.C); ok {
				return mkBig(wrapBig(a.Not(a), k), typ)
			}
		}
	}
	return &Term{Op: OpBitNot, Typ: typ, Args: []*Term{x}}
}

func mkLNot(x *Term) *Term {
	if b, ok := x.ConstBool(); ok {
		return mkBool(!b)
	}
	if x.Op == OpLNot {
		return x.Args[0]
	}
	if x.Op == OpCmp {
		neg := map[token.Token]token.Token{token.EQL: token.NEQ, token.NEQ: token.EQL}
		if n, ok := neg[x.Tok]; ok {
			return &Term{Op: OpCmp, Tok: n, Typ: x.Typ, Args: x.Args}
		}
	}
	return &Term{Op: OpLNot, Typ: types.Typ[types.Bool], Args: []*Term{x}}
}

// mkConv builds a value conversion to typ (convert, multiconvert and
// changetype are all represented as OpConv; changetype between types with
// the same underlying basic type folds to identity on the value).
func mkConv(x *Term, typ types.Type) *Term {
	from, to := kindOf(x.Typ), kindOf(typ)
	if x.IsConst() && to.OK {
		if x.C.Kind() == constant.Int && !to.Float {
			if a, ok := bigOf(x.C); ok {
				return mkBig(wrapBig(a, to), typ)
			}
		}
		if x.C.Kind() == constant.Int && to.Float {
			if a, ok := bigOf(x.C); ok {
				bf := new(big.Float).SetInt(a)
				var f float64
				if to.Bits == 32 {
					f32, _ := bf.Float32()
					f = float64(f32)
				} else {
					f, _ = bf.Float64()
				}
				return mkFloat(f, typ)
			}
		}
		if f, ok := constFloat(x); ok && (x.C.Kind() == constant.Float || x.C.Kind() == constant.String) {
			if to.Float {
				if to.Bits == 32 {
					return mkFloat(float64(float32(f)), typ)
				}
				return mkFloat(f, typ)
			}
			// float -> int: exact only when the truncated value is in range
			if !math.IsNaN(f) && !math.IsInf(f, 0) {
				tr := math.Trunc(f)
				bi, _ := new(big.Float).SetFloat64(tr).Int(nil)
				lo, hi := to.minMax()
				if bi.Cmp(lo) >= 0 && bi.Cmp(hi) <= 0 {
					return mkBig(bi, typ)
				}
			}
			return &Term{Op: OpConv, Typ: typ, Args: []*Term{x}}
		}
	}
	_ = from
	return &Term{Op: OpConv, Typ: typ, Args: []*Term{x}}
}

func mkIte(c, a, b *Term) *Term {
	if v, ok := c.ConstBool(); ok {
		if v {
			return a
		}
		return b
	}
	if a.Key() == b.Key() {
		return a
	}
	return &Term{Op: OpIte, Typ: a.Typ, Args: []*Term{c, a, b}}
}

func mkCall(name string, typ types.Type, args ...*Term) *Term {
	// constant folding of the pure math functions the package uses
	if len(args) == 1 && args[0].IsConst() {
		if f, ok := constFloat(args[0]); ok {
			switch name {
			case "math.Ceil":
				return mkFloat(math.Ceil(f), typ)
			case "math.Floor":
				return mkFloat(math.Floor(f), typ)
			case "math.Round":
				return mkFloat(math.Round(f), typ)
			case "math.Trunc":
				return mkFloat(math.Trunc(f), typ)
			}
		}
	}
	return &Term{Op: OpCall, Name: name, Typ: typ, Args: args}
}

// walk visits every sub-term (pre-order).
func (t *Term) walk(f func(*Term) bool) {
	if t == nil || !f(t) {
		return
	}
	for _, a := range t.Args {
		a.walk(f)
	}
}

func (t *Term) contains(pred func(*Term) bool) bool {
	found := false
	t.walk(func(x *Term) bool {
		if found {
			return false
		}
		if pred(x) {
			found = true
			return false
		}
		return true
	})
	return found
}

func (t *Term) atoms() []string {
	m := map[string]bool{}
	t.walk(func(x *Term) bool {
		if x.Op == OpAtom {
			m[x.Name] = true
		}
		return true
	})
	var out []string
	for k := range m {
		out = append(out, k)
	}
	sort.Strings(out)
	return out
}

// subst replaces atoms by terms (used to instantiate assumptions).
func (t *Term) subst(m map[string]*Term) *Term {
	if t == nil || len(m) == 0 {
		return t
	}
	switch t.Op {
	case OpAtom:
		if r, ok := m[t.Name]; ok {
			return r
		}
		return t
	case OpConst, OpUnknown:
		return t
	}
	changed := false
	args := make([]*Term, len(t.Args))
	for i, a := range t.Args {
		args[i] = a.subst(m)
		if args[i] != a {
			changed = true
		}
	}
	if !changed {
		return t
	}
	return rebuild(t, args)
}

func rebuild(t *Term, args []*Term) *Term {
	switch t.Op {
	case OpAdd, OpSub, OpMul, OpDiv, OpRem, OpShl, OpShr, OpAnd, OpOr, OpXor, OpAndNot:
		var tok token.Token
		for k, v := range binTok {
			if v == t.Op {
				tok = k
			}
		}
		return mkBin(tok, args[0], args[1], t.Typ)
	case OpCmp:
		return mkCmp(t.Tok, args[0], args[1])
	case OpNeg:
		return mkNeg(args[0], t.Typ)
	case OpBitNot:
		return mkBitNot(args[0], t.Typ)
	case OpLNot:
		return mkLNot(args[0])
	case OpConv:
		return mkConv(args[0], t.Typ)
	case OpIte:
		return mkIte(args[0], args[1], args[2])
	case OpCall:
		return mkCall(t.Name, t.Typ, args...)
	}
	c := *t
	c.Args = args
	c.key = ""
	return &c
}
