package main

import (
	"encoding/json"
	"fmt"
	"go/token"
	"os"
	"path/filepath"
	"regexp"
	"sort"
	"strings"
	"time"

	"golang.org/x/tools/go/ssa"
)

type Verdict string

const (
	Proved    Verdict = "PROVED"
	Refuted   Verdict = "REFUTED"
	Undecided Verdict = "UNDECIDED"
)

// Oblig is one proof obligation: a rule applied to one construct.
type Oblig struct {
	Rule     string  `json:"rule"`
	Instance string  `json:"instance"` // stable key of the construct (no line numbers)
	Pos      string  `json:"pos,omitempty"`
	Verdict  Verdict `json:"verdict"`
	Detail   string  `json:"detail,omitempty"`
	Witness  string  `json:"witness,omitempty"`
	Arch     string  `json:"arch,omitempty"`
}

type KnownFinding struct {
	Property      string `json:"property"`
	Rule          string `json:"rule"`
	InstanceRegex string `json:"instance_regex"` // anchored regular expression over the obligation's construct key
	What          string `json:"what"`
}

type KnownFile struct {
	Known []KnownFinding `json:"known"`
	Fixed []string       `json:"fixed"`
}

type Checker struct {
	Prop        string
	Tier        string
	Seed        int
	W           *World
	Obligs      []Oblig
	Funcs       map[string]bool
	Paths       int
	Sites       int
	MinInst     map[string]int
	RuleText    map[string]string
	Samples     []any
	NotDecided  []string
	Assumptions []string
	Trusted     []string
	Extra       map[string]any
	sums        map[*ssa.Function]*Summary
	start       time.Time
	verifDir    string
	pm          *poolModel // constructor model of the pool allocator (rules_pool.go)
}

func newChecker(prop, tier string, seed int, verifDir string) *Checker {
	return &Checker{Prop: prop, Tier: tier, Seed: seed, Funcs: map[string]bool{}, MinInst: map[string]int{}, RuleText: map[string]string{},
		Extra: map[string]any{}, sums: map[*ssa.Function]*Summary{}, start: time.Now(), verifDir: verifDir}
}

func (c *Checker) rule(id, text string, min int) {
	c.RuleText[id] = text
	if min > c.MinInst[id] {
		c.MinInst[id] = min
	}
}

func (c *Checker) pos(p token.Pos) string {
	if p == token.NoPos || c.W == nil {
		return ""
	}
	ps := c.W.Prog.Fset.Position(p)
	return fmt.Sprintf("%s:%d", filepath.Base(ps.Filename), ps.Line)
}

func (c *Checker) effPos(e *Effect) string {
	s := c.pos(e.Pos)
	for i := len(e.Sites) - 1; i >= 0; i-- {
		if p := c.pos(e.Sites[i]); p != "" {
			s += " <- " + p
		}
	}
	return s
}

func (c *Checker) add(rule, inst string, p string, v Verdict, detail, witness string) {
	arch := ""
	if c.W != nil {
		arch = c.W.Arch
	}
	c.Obligs = append(c.Obligs, Oblig{Rule: rule, Instance: inst, Pos: p, Verdict: v, Detail: detail, Witness: witness, Arch: arch})
}

func (c *Checker) proved(rule, inst, pos, detail string) { c.add(rule, inst, pos, Proved, detail, "") }
func (c *Checker) refuted(rule, inst, pos, detail, witness string) {
	c.add(rule, inst, pos, Refuted, detail, witness)
}
func (c *Checker) undecided(rule, inst, pos, detail string) {
	c.add(rule, inst, pos, Undecided, detail, "")
}

// expect records PROVED when ok, REFUTED otherwise.
func (c *Checker) expect(ok bool, rule, inst, pos, okDetail, badDetail string) bool {
	if ok {
		c.proved(rule, inst, pos, okDetail)
	} else {
		c.refuted(rule, inst, pos, badDetail, "")
	}
	return ok
}

// Summary returns (and caches) the path summary of fn.
func (c *Checker) Summary(fn *ssa.Function) *Summary {
	if s, ok := c.sums[fn]; ok {
		return s
	}
	s := c.W.Interp.Run(fn)
	c.sums[fn] = s
	c.Funcs[shortFn(c.W, fn)] = true
	c.Paths += len(s.Outcomes)
	return s
}

func shortFn(w *World, fn *ssa.Function) string {
	return strings.ReplaceAll(fnKey(fn), w.Pkg.PkgPath+".", "")
}

// anchor resolves a function by short name; an unresolved anchor is an
// UNDECIDED obligation (fails the check).
func (c *Checker) anchor(rule, name string) *ssa.Function {
	fn := c.W.Fn(name)
	if fn == nil {
		c.undecided(rule, name, "", "anchor does not resolve: no function "+name+" in the package")
	}
	return fn
}

// undecidedEffects reports EUndecided effects of a summary under the rule.
func (c *Checker) undecidedEffects(rule, inst string, s *Summary) bool {
	any := false
	if len(s.Outcomes) == 0 {
		c.undecided(rule, inst, c.pos(s.Fn.Pos()), "no path of the function could be summarised")
		return true
	}
	seen := map[string]bool{}
	for _, o := range s.Outcomes {
		for _, e := range o.St.effects {
			if e.Kind == EUndecided {
				if e.Early && mayEffectRule(rule) {
					continue
				}
				k := c.effPos(e) + e.Note
				if !seen[k] {
					seen[k] = true
					c.undecided(rule, inst, c.effPos(e), e.Note)
				}
				any = true
			}
		}
	}
	return any
}

// mayEffectRule: rules that judge the set of effects a function may have (who writes which header, which
// divisions, allocations, index expressions occur and under which facts). For them a return from inside a loop is
// covered by the loop's effects quantified over all iterations; the rules that compare written regions or returned
// counts with a specification are not in this list and keep rejecting such loops.
func mayEffectRule(rule string) bool {
	for _, p := range []string{"C12-V", "C20-Z1", "C20-Z3", "C19-N1", "C19-N2", "C18-H1"} {
		if strings.HasPrefix(rule, p) {
			return true
		}
	}
	return false
}

func loadKnown(dir string) KnownFile {
	var kf KnownFile
	b, err := os.ReadFile(filepath.Join(dir, "known_findings.json"))
	if err != nil {
		return kf
	}
	if err := json.Unmarshal(b, &kf); err != nil {
		fmt.Println("cannot parse known_findings.json:", err)
		os.Exit(2)
	}
	return kf
}

// finish prints the report, writes the evidence file and returns the exit code.
func (c *Checker) finish() int {
	kf := loadKnown(c.verifDir)
	// instance-count floor: no vacuous pass
	count := map[string]int{}
	for _, o := range c.Obligs {
		count[o.Rule]++
	}
	var rules []string
	for r := range c.RuleText {
		rules = append(rules, r)
	}
	sort.Strings(rules)
	for _, r := range rules {
		if count[r] < c.MinInst[r] {
			c.W = nil
			c.undecided(r, "instance-count", "", fmt.Sprintf("rule matched %d instances, fewer than the %d confirmed by hand", count[r], c.MinInst[r]))
		}
	}
	sort.SliceStable(c.Obligs, func(i, j int) bool {
		a, b := c.Obligs[i], c.Obligs[j]
		if a.Rule != b.Rule {
			return a.Rule < b.Rule
		}
		return a.Instance < b.Instance
	})
	nProved, nViol := 0, 0
	var viol []Oblig
	knownHit := map[int]bool{}
	for _, o := range c.Obligs {
		if o.Verdict == Proved {
			nProved++
			continue
		}
		matched := false
		if o.Verdict == Refuted {
			for i, k := range kf.Known {
				if k.Property == c.Prop && k.Rule == o.Rule && k.InstanceRegex != "" && regexp.MustCompile("^(?:"+k.InstanceRegex+")$").MatchString(o.Instance) {
					matched = true
					knownHit[i] = true
				}
			}
		}
		if !matched {
			viol = append(viol, o)
		}
	}
	nViol = len(viol)
	fmt.Printf("== %s tier=%s: %d obligations, %d proved, %d violations/undecided, %d functions, %d paths\n", c.Prop, c.Tier, len(c.Obligs), nProved, nViol, len(c.Funcs), c.Paths)
	verbose := os.Getenv("VERIF_VERBOSE") != ""
	for _, o := range c.Obligs {
		if o.Verdict == Proved && !verbose {
			continue
		}
		fmt.Printf("%-9s %-10s %-60s %s %s", o.Verdict, o.Rule, o.Instance, o.Pos, o.Arch)
		if o.Detail != "" {
			fmt.Printf("\n          %s", o.Detail)
		}
		if o.Witness != "" {
			fmt.Printf("\n          witness: %s", o.Witness)
		}
		fmt.Println()
	}
	for i, k := range kf.Known {
		if knownHit[i] {
			fmt.Printf("KNOWN-FINDING: property=%s %s\n", k.Property, k.What)
		}
	}
	// replay files
	replayDir := filepath.Join(c.verifDir, "evidence", "replay")
	os.MkdirAll(replayDir, 0o755)
	old, _ := filepath.Glob(filepath.Join(replayDir, c.Prop+"-*.json"))
	for _, f := range old {
		os.Remove(f)
	}
	for i, o := range viol {
		p := filepath.Join(replayDir, fmt.Sprintf("%s-%d.json", c.Prop, i+1))
		b, _ := json.MarshalIndent(map[string]any{"property": c.Prop, "obligation": o, "rule_text": c.RuleText[o.Rule],
			"reproduce": fmt.Sprintf("cd /verif && VERIF_VERBOSE=1 bin/sigcheck -prop %s -tier %s", c.Prop, c.Tier)}, "", " ")
		os.WriteFile(p, b, 0o644)
		fmt.Printf("VIOLATION property=%s replay=%s\n", c.Prop, p)
	}
	c.writeEvidence(nProved, nViol, count)
	if nViol > 0 {
		return 1
	}
	return 0
}

func (c *Checker) writeEvidence(nProved, nViol int, count map[string]int) {
	var funcs []string
	for f := range c.Funcs {
		funcs = append(funcs, f)
	}
	sort.Strings(funcs)
	samples := c.Samples
	if len(samples) == 0 {
		for i, o := range c.Obligs {
			if i%maxInt(1, len(c.Obligs)/8) == 0 && len(samples) < 10 {
				samples = append(samples, o)
			}
		}
	}
	if len(samples) == 0 {
		samples = append(samples, "no obligation was generated")
	}
	distinct := map[string]bool{}
	for _, o := range c.Obligs {
		distinct[o.Rule+"|"+o.Instance+"|"+o.Arch] = true
	}
	var expl strings.Builder
	fmt.Fprintf(&expl, "Static analysis of /repo's working tree (go/packages + go/ssa, no code of the package executed): %d obligations over %d functions and %d symbolic paths; each obligation is one rule applied to one construct. Rules: ", len(c.Obligs), len(funcs), c.Paths)
	var rules []string
	for r := range c.RuleText {
		rules = append(rules, r)
	}
	sort.Strings(rules)
	for _, r := range rules {
		fmt.Fprintf(&expl, "[%s: %s (instances %d, floor %d)] ", r, c.RuleText[r], count[r], c.MinInst[r])
	}
	if len(c.NotDecided) > 0 {
		fmt.Fprintf(&expl, "NOT decided by this check: %s.", strings.Join(c.NotDecided, "; "))
	}
	cov := map[string]any{
		"explanation":          expl.String(),
		"obligations":          len(c.Obligs),
		"discharged":           nProved,
		"evaluations":          maxInt(1, len(c.Obligs)),
		"distinct_nontrivial":  len(distinct),
		"rule":                 "one evaluation = one rule applied to one construct (function, path, call site, instantiation); distinct = distinct (rule, construct, arch) keys; all are non-trivial in that each inspects SSA of the current tree",
		"samples":              samples,
		"checker_cmd":          fmt.Sprintf("bin/sigcheck -prop %s -tier %s", c.Prop, c.Tier),
		"trusted_base":         append([]string{"go/types + go/ssa (x/tools v0.29.0) SSA construction", "Go language specification semantics of slices, append, make, conversions"}, c.Trusted...),
		"functions_analysed":   funcs,
		"symbolic_paths":       c.Paths,
		"rule_instance_counts": count,
		"rules":                c.RuleText,
		"not_decided":          c.NotDecided,
		"exhaustive":           true,
	}
	for k, v := range c.Extra {
		cov[k] = v
	}
	ev := map[string]any{
		"property_id": c.Prop,
		"tier":        c.Tier,
		"seed":        c.Seed,
		"level":       "other",
		"coverage":    cov,
		"assumptions": c.Assumptions,
		"wall_s":      time.Since(c.start).Seconds(),
		"violations":  nViol,
	}
	if c.Assumptions == nil {
		ev["assumptions"] = []string{}
	}
	b, _ := json.MarshalIndent(ev, "", " ")
	os.MkdirAll(filepath.Join(c.verifDir, "evidence"), 0o755)
	os.WriteFile(filepath.Join(c.verifDir, "evidence", c.Prop+".json"), b, 0o644)
}

func maxInt(a, b int) int {
	if a > b {
		return a
	}
	return b
}
