package main

import (
	"fmt"
	"go/constant"
	"go/token"
	"math"
	"math/big"
	"sort"
	"strings"

	"golang.org/x/tools/go/ssa"
)

func pow2(n int64) *big.Int { return new(big.Int).Lsh(big.NewInt(1), uint(n)) }

func checkC16(c *Checker) {
	c.rule("C16-B1", "closed forms: for every depth b in 1..64 the return terms of MaxSignedValue/MinSignedValue/MaxUnsignedValue fold (constant propagation through the SSA, Go shift/wrap semantics) to 2^(b-1)-1, -2^(b-1), 2^b-1", 192)
	c.rule("C16-B2", "clamps: for every depth, on every path of SignedValue/UnsignedValue the result is val when the path condition implies min <= val <= max, and the nearer bound otherwise (val touched only through comparisons)", 128)
	c.rule("C16-B3", "Scale[T](h,l) folds to 2^(h-l) for all h >= l in 1..64 and every integer element type whenever that fits T", 11)
	c.NotDecided = append(c.NotDecided, "depths above 64 (outside the property)")
	c.Assumptions = append(c.Assumptions, "the depth is enumerated exhaustively (64 values) by constant propagation in the checker's own transfer functions; the clamped value stays symbolic")
	bd := c.typeByName("BitDepth")
	if bd == nil {
		c.undecided("C16-B1", "BitDepth", "", "type BitDepth does not resolve")
		return
	}
	type cf struct {
		name string
		want func(b int64) *big.Int
	}
	forms := []cf{
		{"MaxSignedValue", func(b int64) *big.Int { return new(big.Int).Sub(pow2(b-1), big.NewInt(1)) }},
		{"MinSignedValue", func(b int64) *big.Int { return new(big.Int).Neg(pow2(b - 1)) }},
		{"MaxUnsignedValue", func(b int64) *big.Int { return new(big.Int).Sub(pow2(b), big.NewInt(1)) }},
	}
	for _, f := range forms {
		fn := c.anchor("C16-B1", "(BitDepth)."+f.name)
		if fn == nil {
			continue
		}
		for b := int64(1); b <= 64; b++ {
			inst := fmt.Sprintf("%s(b=%d)", f.name, b)
			s := c.runAssumed(fn, map[string]*Term{paramName(fn, 0): mkInt(b, bd)})
			if c.undecidedEffects("C16-B1", inst, s) {
				continue
			}
			ret := mergedRet(retPaths(s))
			if len(panicPaths(s)) > 0 || ret == nil || !ret.IsConst() {
				c.undecided("C16-B1", inst, c.pos(fn.Pos()), "does not fold to a constant: "+pretty(canonOrNil(ret)))
				continue
			}
			got, _ := bigOf(ret.C)
			want := f.want(b)
			if got != nil && got.Cmp(want) == 0 {
				c.proved("C16-B1", inst, c.pos(fn.Pos()), "= "+want.String())
			} else {
				c.refuted("C16-B1", inst, c.pos(fn.Pos()), fmt.Sprintf("%s at depth %d evaluates to %v, expected %s", f.name, b, got, want), fmt.Sprintf("BitDepth(%d).%s()", b, f.name))
			}
		}
	}
	// clamps
	for _, cl := range []struct {
		name   string
		signed bool
	}{{"SignedValue", true}, {"UnsignedValue", false}} {
		fn := c.anchor("C16-B2", "(BitDepth)."+cl.name)
		if fn == nil {
			continue
		}
		for b := int64(1); b <= 64; b++ {
			inst := fmt.Sprintf("%s(b=%d)", cl.name, b)
			s := c.runAssumed(fn, map[string]*Term{paramName(fn, 0): mkInt(b, bd)})
			if c.undecidedEffects("C16-B2", inst, s) {
				continue
			}
			var mn, mx *big.Int
			if cl.signed {
				mn, mx = new(big.Int).Neg(pow2(b-1)), new(big.Int).Sub(pow2(b-1), big.NewInt(1))
			} else {
				mn, mx = big.NewInt(0), new(big.Int).Sub(pow2(b), big.NewInt(1))
			}
			val := mkAtom(paramName(fn, 1), intT)
			pv := normInt(val)
			ok := len(panicPaths(s)) == 0 && len(retPaths(s)) > 0
			detail := ""
			// type range of val as background facts
			for _, o := range retPaths(s) {
				f := o.St.facts.clone()
				if cl.signed {
					f.add(Cond{Kind: CGE0, P: pv.Add(polyConst(pow2(63)))})
					f.add(Cond{Kind: CGE0, P: polyConst(new(big.Int).Sub(pow2(63), big.NewInt(1))).Sub(pv)})
				} else {
					f.add(Cond{Kind: CGE0, P: pv})
					f.add(Cond{Kind: CGE0, P: polyConst(new(big.Int).Sub(pow2(64), big.NewInt(1))).Sub(pv)})
				}
				ret := valTerm(o.Ret)
				if ret == nil {
					ok, detail = false, "no scalar result"
					break
				}
				// val may only be compared with constants: any arithmetic on it (negation, abs, subtraction)
				// can overflow for extreme values, which the mathematical reading of the path facts would hide
				for _, fc := range nonAxiomFacts(o.St.facts) {
					if fc.Orig == nil {
						continue
					}
					if !comparisonOnly(fc.Orig, val) {
						ok, detail = false, "val is used in arithmetic before the comparison (can overflow for extreme values): "+pretty(fc.Orig)
					}
				}
				inLo, inHi := f.impliesGE0(pv.Sub(polyConst(mn))), f.impliesGE0(polyConst(mx).Sub(pv))
				switch {
				case ret.Key() == val.Key():
					if !(inLo && inHi) {
						ok, detail = false, fmt.Sprintf("returns val on a path that does not imply %s <= val <= %s: %s", mn, mx, factsBrief(o.St.facts))
					}
				case ret.IsConst():
					cv, _ := bigOf(ret.C)
					switch {
					case cv != nil && cv.Cmp(mn) == 0 && f.impliesGE0(polyConst(mn).Sub(pv)):
					case cv != nil && cv.Cmp(mx) == 0 && f.impliesGE0(pv.Sub(polyConst(mx))):
					default:
						ok, detail = false, fmt.Sprintf("returns %v on path %s: not the nearest bound of [%s, %s]", cv, factsBrief(o.St.facts), mn, mx)
					}
				default:
					// a selection tree (min, max, conditional on comparisons) over val and constants: every
					// comparison is with a constant, so the tree is decided by the position of val among those
					// constants; one representative per ordering class is compared with the clamp
					// (the term as the program computes it: canonicalisation would rewrite "val < c" into arithmetic form)
					if d := clampTree(ret, val, f, pv, mn, mx, cl.signed); d != "" {
						ok, detail = false, d
					}
				}
				if len(mods(o)) > 0 {
					ok, detail = false, "clamp has side effects"
				}
			}
			if ok {
				c.proved("C16-B2", inst, c.pos(fn.Pos()), fmt.Sprintf("clamp to [%s, %s] on %d paths", mn, mx, len(retPaths(s))))
			} else {
				c.refuted("C16-B2", inst, c.pos(fn.Pos()), detail, fmt.Sprintf("BitDepth(%d).%s", b, cl.name))
			}
		}
	}
	// Scale
	for _, tn := range intTypeNames() {
		fn := c.W.Fn("Scale[" + tn + "]")
		inst := "Scale[" + tn + "]"
		if fn == nil {
			c.undecided("C16-B3", inst, "", "instantiation not found")
			continue
		}
		k := kindOf(c.typeByName(tn))
		_, mx := k.minMax()
		ok := true
		detail, wit := "", ""
		n := 0
		for h := int64(1); h <= 64 && ok; h++ {
			for l := int64(1); l <= h; l++ {
				want := pow2(h - l)
				if want.Cmp(mx) > 0 {
					continue // does not fit the type: outside the property
				}
				n++
				s := c.W.Interp.runQuiet(fn, map[string]*Term{paramName(fn, 0): mkInt(h, bd), paramName(fn, 1): mkInt(l, bd)})
				ret := mergedRet(retPaths(s))
				if ret == nil || !ret.IsConst() {
					ok, detail = false, fmt.Sprintf("Scale(%d,%d) does not fold: %s", h, l, pretty(canonOrNil(ret)))
					break
				}
				got, _ := bigOf(ret.C)
				if got == nil || got.Cmp(want) != 0 {
					ok, detail = false, fmt.Sprintf("Scale[%s](%d,%d) evaluates to %v, expected %s", tn, h, l, got, want)
					wit = fmt.Sprintf("Scale[%s](%d, %d)", tn, h, l)
					break
				}
			}
		}
		c.Paths += n
		c.Funcs[inst] = true
		if ok {
			c.proved("C16-B3", inst, c.pos(fn.Pos()), fmt.Sprintf("%d depth pairs fold to 2^(h-l)", n))
		} else {
			c.refuted("C16-B3", inst, c.pos(fn.Pos()), detail, wit)
		}
	}
}

// runQuiet is Run with assumptions, without bookkeeping.
func (ip *Interp) runQuiet(fn *ssa.Function, assume map[string]*Term) *Summary {
	old := ip.assume
	ip.assume = assume
	defer func() { ip.assume = old }()
	return ip.Run(fn)
}

// ---------------- C17 ----------------

// monomial over the reals: coefficient num/den and the multiset of atoms in numerator and denominator.
type monomialF struct {
	num, den *big.Rat
	up, down []string
	bad      string
	ops      int // floating-point operations that round
}

func flatten(t *Term, m *monomialF, inverse bool) {
	if m.bad != "" {
		return
	}
	k := kindOf(t.Typ)
	if !k.Float || k.Bits != 64 {
		m.bad = "intermediate of type " + typeKey(t.Typ) + " (not float64): " + pretty(t)
		return
	}
	switch t.Op {
	case OpConst:
		f, ok := constFloat(t)
		if !ok || f == 0 {
			m.bad = "bad constant " + pretty(t)
			return
		}
		r := new(big.Rat).SetFloat64(f)
		if inverse {
			m.den.Mul(m.den, r)
		} else {
			m.num.Mul(m.num, r)
		}
	case OpAtom:
		if inverse {
			m.down = append(m.down, t.Name)
		} else {
			m.up = append(m.up, t.Name)
		}
	case OpConv:
		in := t.Args[0]
		// integer -> integer conversions that cannot change the value (int64(d) of a time.Duration)
		for in.Op == OpConv && isIntLike(in.Typ) && isIntLike(in.Args[0].Typ) {
			from, to := kindOf(in.Args[0].Typ), kindOf(in.Typ)
			if !(from.OK && to.OK && from.Signed == to.Signed && to.Bits >= from.Bits) {
				break
			}
			in = in.Args[0]
		}
		if in.Op == OpAtom && (isIntLike(in.Typ) || (kindOf(in.Typ).Float && kindOf(in.Typ).Bits == 64)) {
			// exact: float64(int) for |n| < 2^53, or a change of a float64-based named type
			if inverse {
				m.down = append(m.down, in.Name)
			} else {
				m.up = append(m.up, in.Name)
			}
			return
		}
		if kindOf(in.Typ).Float && kindOf(in.Typ).Bits == 64 {
			flatten(in, m, inverse)
			return
		}
		m.bad = "conversion inside the formula: " + pretty(t)
	case OpMul:
		m.ops++
		flatten(t.Args[0], m, inverse)
		flatten(t.Args[1], m, inverse)
	case OpDiv:
		m.ops++
		flatten(t.Args[0], m, inverse)
		flatten(t.Args[1], m, !inverse)
	default:
		m.bad = "operation " + opNames[t.Op] + " inside the formula: " + pretty(t)
	}
}

func checkC17(c *Checker) {
	c.rule("C17-T1", "formula: the value under the rounding normalises (as a monomial over the reals) to 1e9*n/f resp. f*d/1e9, all operations in float64, n and d entering through one exact conversion", 2)
	c.rule("C17-T2", "rounding operator: math.Round applied once, last, before the single integer conversion", 2)
	c.rule("C17-T3", "monotone for f > 0: every step is a product/quotient with positive factors followed by round-to-nearest and math.Round", 2)
	c.rule("C17-T4", "round trip bound: (f_max/1e9)*(0.5 + d_dur) + d_ev < 0.5 for f_max = 1e6 and spans up to 24 h, evaluated in exact rational arithmetic from the operation counts of T1", 1)
	c.NotDecided = append(c.NotDecided, "overflow of the final integer conversion for absurd arguments", "f <= 0 and NaN", "the half-unit error bound follows from T1+T2 (math.Round is within 0.5 of its argument); it is a lemma, not mechanised beyond the operation count")
	type spec struct {
		name     string
		coef     *big.Rat
		up, down []string // roles: "arg" = the int/duration argument, "f" = receiver
	}
	e9 := new(big.Rat).SetInt64(1_000_000_000)
	specs := []spec{
		{"Duration", e9, []string{"arg"}, []string{"f"}},
		{"Events", new(big.Rat).Inv(e9), []string{"arg", "f"}, nil},
	}
	ops := map[string]int{}
	for _, sp := range specs {
		fn := c.anchor("C17-T1", "(Frequency)."+sp.name)
		if fn == nil {
			continue
		}
		s := c.Summary(fn)
		if c.undecidedEffects("C17-T1", sp.name, s) {
			continue
		}
		p := c.pos(fn.Pos())
		// the property speaks about positive rates: a path that only f <= 0 or NaN takes (a guard returning 0, a
		// friendlier panic) is outside it
		rets := positiveRatePaths(retPaths(s), paramName(fn, 0))
		pans := positiveRatePaths(panicPaths(s), paramName(fn, 0))
		ret := mergedRet(rets)
		if ret == nil || len(rets) != 1 || len(pans) > 0 {
			c.refuted("C17-T2", sp.name, p, "not a single straight-line formula", "")
			continue
		}
		// T2: Conv_int(Call(math.Round, X)), or the same rounding spelled with math.Trunc
		if ret.Op == OpConv && isIntLike(ret.Typ) {
			if x := roundHalfAwayArg(ret.Args[0]); x != nil {
				ret = mkConv(mkCall("math.Round", ret.Args[0].Typ, x), ret.Typ)
			}
		}
		// (math.RoundToEven rounds to nearest as well: it differs from math.Round only at exact halves, where both
		// neighbours are half a unit away, and it is monotone)
		okT2 := ret.Op == OpConv && isIntLike(ret.Typ) && ret.Args[0].Op == OpCall && (ret.Args[0].Name == "math.Round" || ret.Args[0].Name == "math.RoundToEven") && len(ret.Args[0].Args) == 1
		if !okT2 {
			got := "a bare conversion (truncation)"
			if ret.Op == OpConv && ret.Args[0].Op == OpCall {
				got = ret.Args[0].Name
			}
			c.refuted("C17-T2", sp.name, p, "the value is not rounded with math.Round before the integer conversion: "+got+" in "+pretty(ret), "an argument whose exact result has a fractional part >= 0.5")
			continue
		}
		X := ret.Args[0].Args[0]
		if X.contains(func(x *Term) bool { return x.Op == OpCall }) {
			c.refuted("C17-T2", sp.name, p, "a second rounding/library call inside the formula: "+pretty(X), "")
			continue
		}
		c.proved("C17-T2", sp.name, p, "int(math.Round(...)) applied once, last")
		m := &monomialF{num: new(big.Rat).SetInt64(1), den: new(big.Rat).SetInt64(1)}
		flatten(X, m, false)
		if m.bad != "" {
			c.refuted("C17-T1", sp.name, p, m.bad, "")
			continue
		}
		role := func(n string) string {
			if n == paramName(fn, 0) {
				return "f"
			}
			if n == paramName(fn, 1) {
				return "arg"
			}
			return n
		}
		var up, down []string
		for _, n := range m.up {
			up = append(up, role(n))
		}
		for _, n := range m.down {
			down = append(down, role(n))
		}
		// cancel common factors
		up, down = cancel(up, down)
		coef := new(big.Rat).Quo(m.num, m.den)
		okT1 := coef.Cmp(sp.coef) == 0 && sameMultiset(up, sp.up) && sameMultiset(down, sp.down)
		c.expect(okT1, "C17-T1", sp.name, p, fmt.Sprintf("%s * %v / %v in float64 (%d rounding operations)", sp.coef.FloatString(9), sp.up, sp.down, m.ops),
			fmt.Sprintf("formula normalises to %s * %v / %v, expected %s * %v / %v", coef.FloatString(12), up, down, sp.coef.FloatString(12), sp.up, sp.down))
		if okT1 {
			c.proved("C17-T3", sp.name, p, "positive constant factors only; rounding to nearest and math.Round are monotone")
			ops[sp.name] = m.ops
		}
	}
	if len(ops) == 2 {
		// T4
		u := new(big.Rat).SetFrac(big.NewInt(1), pow2(53)) // unit round-off
		relErr := func(n int) *big.Rat {
			// (1+u)^n - 1 <= n*u*(1+n*u) for small n*u
			nu := new(big.Rat).Mul(new(big.Rat).SetInt64(int64(n)), u)
			return new(big.Rat).Mul(nu, new(big.Rat).Add(new(big.Rat).SetInt64(1), nu))
		}
		fmax := new(big.Rat).SetInt64(1_000_000)
		spanNs := new(big.Rat).SetInt64(86400 * 1_000_000_000)
		maxEvents := new(big.Rat).Mul(fmax, new(big.Rat).SetInt64(86400))
		dDur := new(big.Rat).Mul(spanNs, relErr(ops["Duration"]))
		dEv := new(big.Rat).Mul(maxEvents, relErr(ops["Events"]))
		half := new(big.Rat).SetFrac64(1, 2)
		lhs := new(big.Rat).Add(new(big.Rat).Mul(new(big.Rat).Quo(fmax, new(big.Rat).SetInt64(1_000_000_000)), new(big.Rat).Add(half, dDur)), dEv)
		ok := lhs.Cmp(half) < 0
		c.expect(ok, "C17-T4", "round-trip", "", fmt.Sprintf("bound %s < 0.5 (d_dur=%s ns, d_ev=%s events)", lhs.FloatString(8), dDur.FloatString(6), dEv.FloatString(8)),
			fmt.Sprintf("bound %s is not below 0.5", lhs.FloatString(8)))
	}
}

// positiveRatePaths drops the paths whose branch decisions contradict f > 0 (f a real number): a decision is a
// comparison of the bare receiver with a constant, math.IsNaN(f) or f != f.
func positiveRatePaths(outs []Outcome, recv string) []Outcome {
	isF := func(x *Term) bool {
		for x != nil && x.Op == OpConv && kindOf(x.Typ).Float {
			x = x.Args[0]
		}
		return x != nil && x.Op == OpAtom && x.Name == recv
	}
	// truth of the term under f > 0: +1 true, -1 false, 0 unknown
	var truth func(t *Term) int
	truth = func(t *Term) int {
		switch {
		case t == nil:
			return 0
		case t.Op == OpLNot:
			return -truth(t.Args[0])
		case t.Op == OpCall && t.Name == "math.IsNaN" && len(t.Args) == 1 && isF(t.Args[0]):
			return -1
		case t.Op == OpCmp && isF(t.Args[0]) && isF(t.Args[1]):
			if t.Tok == token.NEQ || t.Tok == token.LSS || t.Tok == token.GTR {
				return -1
			}
			return 1
		case t.Op == OpCmp:
			a, b, tok := t.Args[0], t.Args[1], t.Tok
			if !isF(a) {
				if !isF(b) {
					return 0
				}
				a, b = b, a
				tok = map[token.Token]token.Token{token.LSS: token.GTR, token.LEQ: token.GEQ, token.GTR: token.LSS, token.GEQ: token.LEQ, token.EQL: token.EQL, token.NEQ: token.NEQ}[tok]
			}
			cv, ok := constFloat(b)
			if !ok || !b.IsConst() || cv > 0 || math.IsNaN(cv) {
				return 0
			}
			// f ⋈ cv with cv <= 0 < f
			switch tok {
			case token.GTR, token.GEQ, token.NEQ:
				return 1
			case token.LSS, token.LEQ, token.EQL:
				return -1
			}
		}
		return 0
	}
	var keep []Outcome
	for _, o := range outs {
		dead := false
		for _, fc := range nonAxiomFacts(o.St.facts) {
			if fc.Orig == nil {
				continue
			}
			tr := truth(fc.Orig)
			if fc.OrigNeg {
				tr = -tr
			}
			if tr < 0 {
				dead = true
			}
		}
		if !dead {
			keep = append(keep, o)
		}
	}
	return keep
}

func cancel(up, down []string) ([]string, []string) {
	var u2 []string
	d2 := append([]string{}, down...)
outer:
	for _, a := range up {
		for i, b := range d2 {
			if a == b {
				d2 = append(d2[:i], d2[i+1:]...)
				continue outer
			}
		}
		u2 = append(u2, a)
	}
	return u2, d2
}

func sameMultiset(a, b []string) bool {
	if len(a) != len(b) {
		return false
	}
	m := map[string]int{}
	for _, x := range a {
		m[x]++
	}
	for _, x := range b {
		m[x]--
	}
	for _, v := range m {
		if v != 0 {
			return false
		}
	}
	return true
}

var _ = strings.Contains

// comparisonOnly: the boolean term compares the bare atom with constants only (no arithmetic on the atom).
func comparisonOnly(t *Term, atom *Term) bool {
	switch t.Op {
	case OpLNot:
		return comparisonOnly(t.Args[0], atom)
	case OpConst:
		return true
	case OpCmp:
		for _, a := range t.Args {
			bare := a.Op == OpAtom && a.Name == atom.Name
			if !bare && a.contains(func(x *Term) bool { return x.Op == OpAtom && x.Name == atom.Name }) {
				return false
			}
		}
		return true
	}
	return !t.contains(func(x *Term) bool { return x.Op == OpAtom && x.Name == atom.Name })
}

// clampTree decides whether a selection tree over val and constants equals clamp(val, mn, mx) for every val
// admitted by the path facts. Returns "" when it does.
func clampTree(ret, val *Term, f *Facts, pv *Poly, mn, mx *big.Int, signed bool) string {
	consts := []*big.Int{mn, mx}
	if signed {
		consts = append(consts, new(big.Int).Neg(pow2(63)), new(big.Int).Sub(pow2(63), big.NewInt(1)))
	} else {
		consts = append(consts, big.NewInt(0), new(big.Int).Sub(pow2(64), big.NewInt(1)))
	}
	tmin, tmax := consts[2], consts[3]
	okTree := true
	var walk func(t *Term, boolean bool)
	walk = func(t *Term, boolean bool) {
		switch t.Op {
		case OpConst:
			if v, ok := bigOf(t.C); ok && v != nil {
				consts = append(consts, v)
			} else if !boolean {
				okTree = false
			}
		case OpAtom:
			if t.Name != val.Name {
				okTree = false
			}
		case OpMin, OpMax:
			for _, a := range t.Args {
				walk(a, false)
			}
		case OpIte:
			walk(t.Args[0], true)
			walk(t.Args[1], false)
			walk(t.Args[2], false)
		case OpLNot:
			if !boolean {
				okTree = false
			}
			walk(t.Args[0], true)
		case OpCmp:
			if !boolean {
				okTree = false
			}
			walk(t.Args[0], false)
			walk(t.Args[1], false)
		default:
			okTree = false
		}
	}
	walk(ret, false)
	if !okTree {
		return "result is neither val, a bound, nor a selection (min/max/conditional) over val and constants: " + pretty(ret)
	}
	sort.Slice(consts, func(i, j int) bool { return consts[i].Cmp(consts[j]) < 0 })
	var reps []*big.Int
	for i, b := range consts {
		if i > 0 && consts[i-1].Cmp(b) == 0 {
			continue
		}
		reps = append(reps, b)
		nx := new(big.Int).Add(b, big.NewInt(1))
		if i+1 < len(consts) && nx.Cmp(consts[i+1]) < 0 {
			reps = append(reps, nx)
		}
	}
	for _, v := range reps {
		if v.Cmp(tmin) < 0 || v.Cmp(tmax) > 0 {
			continue
		}
		// feasible on this path?
		feasible := true
		for _, fc := range f.list {
			if fc.P == nil {
				continue
			}
			if x, ok := polyAt(fc.P, val, v); ok {
				switch fc.Kind {
				case CGE0:
					feasible = feasible && x.Sign() >= 0
				case CEQ0:
					feasible = feasible && x.Sign() == 0
				case CNE0:
					feasible = feasible && x.Sign() != 0
				}
			}
		}
		if !feasible {
			continue
		}
		got, ok := selEval(ret, val, v)
		if !ok {
			return "selection tree does not evaluate at val = " + v.String()
		}
		want := v
		if v.Cmp(mn) < 0 {
			want = mn
		}
		if v.Cmp(mx) > 0 {
			want = mx
		}
		if got.Cmp(want) != 0 {
			return fmt.Sprintf("returns %s for val = %s, expected %s (%s)", got, v, want, pretty(ret))
		}
	}
	return ""
}

// selEval evaluates a selection tree at val = v.
func selEval(t, val *Term, v *big.Int) (*big.Int, bool) {
	switch t.Op {
	case OpConst:
		c, ok := bigOf(t.C)
		return c, ok && c != nil
	case OpAtom:
		return v, t.Name == val.Name
	case OpMin, OpMax:
		var best *big.Int
		for _, a := range t.Args {
			x, ok := selEval(a, val, v)
			if !ok {
				return nil, false
			}
			if best == nil || (t.Op == OpMin && x.Cmp(best) < 0) || (t.Op == OpMax && x.Cmp(best) > 0) {
				best = x
			}
		}
		return best, best != nil
	case OpIte:
		b, ok := selBool(t.Args[0], val, v)
		if !ok {
			return nil, false
		}
		if b {
			return selEval(t.Args[1], val, v)
		}
		return selEval(t.Args[2], val, v)
	}
	return nil, false
}

func selBool(t, val *Term, v *big.Int) (bool, bool) {
	switch t.Op {
	case OpConst:
		if t.C != nil && t.C.Kind() == constant.Bool {
			return constant.BoolVal(t.C), true
		}
	case OpLNot:
		b, ok := selBool(t.Args[0], val, v)
		return !b, ok
	case OpCmp:
		a, ok1 := selEval(t.Args[0], val, v)
		b, ok2 := selEval(t.Args[1], val, v)
		if !ok1 || !ok2 {
			return false, false
		}
		c := a.Cmp(b)
		switch t.Tok {
		case token.LSS:
			return c < 0, true
		case token.LEQ:
			return c <= 0, true
		case token.GTR:
			return c > 0, true
		case token.GEQ:
			return c >= 0, true
		case token.EQL:
			return c == 0, true
		case token.NEQ:
			return c != 0, true
		}
	}
	return false, false
}

// polyAt evaluates a polynomial in the single atom val at val = v; ok is false when another factor occurs.
func polyAt(p *Poly, val *Term, v *big.Int) (*big.Int, bool) {
	sum := new(big.Int)
	for _, mo := range p.m {
		x := new(big.Int).Set(mo.coef)
		for _, fac := range mo.factors {
			if fac.Op != OpAtom || fac.Name != val.Name {
				return nil, false
			}
			x.Mul(x, v)
		}
		sum.Add(sum, x)
	}
	return sum, true
}

// roundHalfAwayArg recognises round-half-away-from-zero written with math.Trunc:
//
//	w := trunc(x); frac := x - w; frac >= 0.5 -> w+1; frac <= -0.5 -> w-1; otherwise w
//
// (x - trunc(x) is exact in binary floating point, and w +- 1 is exact while |w| < 2^53, so this equals
// math.Round(x) for every float64 including NaN and the infinities.) Returns x, or nil.
func roundHalfAwayArg(t *Term) *Term {
	type arm struct{ cond, val *Term }
	var arms []arm
	for t.Op == OpIte {
		arms = append(arms, arm{t.Args[0], t.Args[1]})
		t = t.Args[2]
	}
	if len(arms) != 2 || t.Op != OpCall || t.Name != "math.Trunc" || len(t.Args) != 1 {
		return nil
	}
	w, x := t, t.Args[0]
	isF := func(c *Term, v float64) bool {
		if c == nil || c.Op != OpConst {
			return false
		}
		f, ok := floatOf(c.C)
		return ok && f == v
	}
	isFrac := func(a *Term) bool {
		return a.Op == OpSub && a.Args[0].Key() == x.Key() && a.Args[1].Key() == w.Key()
	}
	up, down := false, false
	for _, a := range arms {
		if a.cond.Op != OpCmp || !isFrac(a.cond.Args[0]) {
			return nil
		}
		switch {
		case a.cond.Tok == token.GEQ && isF(a.cond.Args[1], 0.5) && a.val.Op == OpAdd && a.val.Args[0].Key() == w.Key() && isF(a.val.Args[1], 1):
			up = true
		case a.cond.Tok == token.LEQ && isF(a.cond.Args[1], -0.5) && a.val.Op == OpSub && a.val.Args[0].Key() == w.Key() && isF(a.val.Args[1], 1):
			down = true
		default:
			return nil
		}
	}
	if up && down {
		return x
	}
	return nil
}
