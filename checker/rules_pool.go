package main

import (
	"fmt"
	"go/types"
	"strings"

	"golang.org/x/tools/go/ssa"
)

func isPoolCall(e *Effect, method string) bool {
	return e.Kind == ECall && e.Callee == "(*sync.Pool)."+method
}

// refersTo reports whether v contains a pointer to the named object or a slice of the named storage.
func refersTo(v Val, obj, stor string) bool {
	switch x := v.(type) {
	case PtrV:
		return x.Obj != nil && x.Obj.Name == obj
	case SliceV:
		return x.Stor != nil && x.Stor.Name == stor
	case IfaceV:
		return x.Dyn != nil && refersTo(x.Dyn, obj, stor)
	case StructV:
		for _, f := range x.F {
			if refersTo(f, obj, stor) {
				return true
			}
		}
	case TupleV:
		for _, f := range x.E {
			if refersTo(f, obj, stor) {
				return true
			}
		}
	case ClosureV:
		for _, f := range x.Bind {
			if refersTo(f, obj, stor) {
				return true
			}
		}
	}
	return false
}

// poolObligations checks P1-P4 of C10 under the given rule prefix (C11 re-evaluates them as Q4).
func poolObligations(c *Checker, pfx string) {
	r := func(n string) string { return pfx + n }
	// ---- P1: state of the object handed to sync.Pool.Put
	if fn := c.anchor(r("1"), "(*PoolAllocator[T]).Put"); fn != nil {
		s := c.Summary(fn)
		if !c.undecidedEffects(r("1"), "PoolAllocator.Put", s) {
			p, b := paramName(fn, 0), buf{paramName(fn, 1)}
			pm := c.poolModel()
			if !pm.ok || !pm.newOK || pm.newLen == nil || pm.newCap == nil {
				c.undecided(r("1"), "PoolAllocator.Put", c.pos(fn.Pos()), "the constructor model of the pool is not available: "+pm.why+pm.newWhy)
			}
			fi := bufferFields(fn.Params[1].Type().Underlying().(*types.Pointer).Elem())
			nret := 0
			for _, o := range retPaths(s) {
				nret++
				var put *Effect
				putIdx := -1
				ms := mods(o)
				for i, e := range ms {
					if isPoolCall(e, "Put") {
						if put != nil {
							c.refuted(r("1"), "PoolAllocator.Put/pool-put", c.effPos(e), "more than one sync.Pool.Put on a path", "")
						}
						put, putIdx = e, i
					}
				}
				if put == nil {
					c.refuted(r("1"), "PoolAllocator.Put/pool-put", c.pos(o.Pos), "a return path does not hand the buffer to sync.Pool.Put", "")
					continue
				}
				same := len(put.Args) == 2 && refersTo(put.Args[1], b.obj(), "") && func() bool {
					iv, ok := put.Args[1].(IfaceV)
					if !ok {
						return false
					}
					pv, ok := iv.Dyn.(PtrV)
					return ok && len(pv.Path) == 0
				}()
				c.expect(same, r("1"), "PoolAllocator.Put/object", c.effPos(put), "the caller's buffer object is pooled", "the object given to sync.Pool.Put is not the caller's buffer: "+put.String())
				// publication is the last effect (also C11-Q2)
				c.expect(putIdx == len(ms)-1, r("1"), "PoolAllocator.Put/publication-last", c.effPos(put), "no effect after sync.Pool.Put",
					"the buffer is modified after it was handed to the pool: "+describeEffects(ms[putIdx+1:]))
				// header state
				hdr, _ := o.St.mem[objByName(o, b.obj())].(StructV)
				var data SliceV
				if fi != nil && len(hdr.F) >= 2 {
					data, _ = fi.at(hdr, fi.data).(SliceV)
				}
				okLen := data.Stor != nil && data.Stor.Name == b.stor() && eqInt(data.Off, zeroT()) && pm.newLen != nil && eqInt(pm.through(p, data.Len), pm.newLen)
				c.expect(okLen, r("1"), "PoolAllocator.Put/length", c.pos(fn.Pos()), "len(data) restored to Channels*Length",
					fmt.Sprintf("pooled buffer has len(data) = %s, expected alloc.Channels*alloc.Length (a shortened or extended buffer is handed out again as is)", pretty(canonOrNil(data.Len))))
				okCap := false
				if pm.newCap != nil {
					guardEq := Cond{Kind: CEQ0, P: normSign(normInt(b.capT()).Sub(normInt(pm.newCap)))}
					okCap = data.Stor != nil && eqInt(data.Cap, b.capT()) && hasFact(pm.factsThrough(p, put.Facts), guardEq)
				}
				c.expect(okCap, r("1"), "PoolAllocator.Put/capacity", c.pos(fn.Pos()), "cap(data) unchanged and equal to Capacity*Channels by the guard", "pooled buffer has cap(data) = "+pretty(canonOrNil(data.Cap))+", not established equal to alloc.Capacity*alloc.Channels on the path to sync.Pool.Put")
				// zeroed region must cover [0, cap)
				covered := false
				var other []*Effect
				// the wipe may be spelled as several loops (blocks of samples plus a tail, a peeled iteration): the
				// regions are merged before they are compared with [0, cap)
				var wipes []region
				for _, e := range ms[:putIdx] {
					if e.Kind == EStoreElem || e.Kind == ECopy || e.Kind == EClear {
						if rg, ok := regionOf(e); ok && rg.zero && rg.stor.Name == b.stor() {
							wipes = append(wipes, rg)
						}
					}
				}
				mergedWipes := normalizeRegions(wipes, put.Facts)
				inMerged := map[*Effect]bool{}
				if len(mergedWipes) < len(wipes) {
					for _, rg := range wipes {
						inMerged[rg.eff] = true
					}
					for _, rg := range mergedWipes {
						if rg.stride <= 1 && rg.start.IsZero() && (rg.count.Equal(normInt(b.capT())) || eqUnder(rg.count.toTerm(), b.capT(), put.Facts) || (pm.newCap != nil && normInt(pm.through(p, rg.count.toTerm())).Equal(normInt(pm.newCap)))) {
							covered = true
						}
					}
				}
				for _, e := range ms[:putIdx] {
					if inMerged[e] && covered {
						continue
					}
					switch e.Kind {
					case EStoreElem, ECopy, EClear:
						rg, ok := regionOf(e)
						if ok && rg.zero && rg.stride <= 1 && rg.stor.Name == b.stor() && rg.start.IsZero() {
							if rg.count.Equal(normInt(b.capT())) || (pm.newCap != nil && normInt(pm.through(p, rg.count.toTerm())).Equal(normInt(pm.newCap))) {
								covered = true
							}
							continue
						}
						other = append(other, e)
					case EStoreField, ESetCap:
						if e.Obj.Name != b.obj() || fi == nil || !pathEq(e.Path, fi.data) {
							other = append(other, e)
						}
					default:
						other = append(other, e)
					}
				}
				c.expect(covered, r("1"), "PoolAllocator.Put/zeroed", c.pos(fn.Pos()), "samples zeroed over [0, cap)",
					"the zeroed region does not cover the whole capacity [0, cap(data)): "+describeEffects(ms[:putIdx]))
				c.expect(len(other) == 0, r("1"), "PoolAllocator.Put/nothing-else", c.pos(fn.Pos()), "channels/bitDepth and everything else untouched", "unexpected effects before pooling: "+describeEffects(other))
				// P4: no other escape of b
				esc := false
				for _, e := range o.St.effects {
					if e == put {
						continue
					}
					if e.Kind == ECall {
						for _, a := range e.Args {
							if refersTo(a, b.obj(), b.stor()) {
								esc = true
							}
						}
					}
					if e.Kind == EStoreField && e.Obj.Name != b.obj() && refersTo(e.Val, b.obj(), b.stor()) {
						esc = true
					}
				}
				c.expect(!esc, r("4"), "PoolAllocator.Put/escape", c.pos(fn.Pos()), "the buffer escapes only into sync.Pool.Put", "the buffer or its storage is retained elsewhere")
			}
			if nret == 0 {
				c.undecided(r("1"), "PoolAllocator.Put", c.pos(fn.Pos()), "no return path")
			}
		}
	}
	// ---- P2: Get
	if fn := c.anchor(r("2"), "(*PoolAllocator[T]).Get"); fn != nil {
		s := c.Summary(fn)
		if !c.undecidedEffects(r("2"), "PoolAllocator.Get", s) {
			ok := len(retPaths(s)) == 1
			detail := fmt.Sprintf("%d return paths", len(retPaths(s)))
			if ok {
				o := retPaths(s)[0]
				ms := mods(o)
				pv, isP := o.Ret.(PtrV)
				item := isP && pv.Obj != nil && pv.Obj.Kind == OOpaque && strings.Contains(pv.Obj.Name, "pool.Get") && len(pv.Path) == 0
				if ov, isO := o.Ret.(OpaqueV); isO && strings.Contains(ov.Name, "pool.Get") {
					item = true // type-asserted inside a generic helper: still exactly the pool's item
				}
				ok = len(ms) == 1 && isPoolCall(ms[0], "Get") && item
				detail = "effects: " + describeEffects(ms) + " result: " + valString(o.Ret)
				if ok {
					pp, isPP := ms[0].Args[0].(PtrV)
					fld := "pool"
					if pm := c.poolModel(); pm.ok && pm.poolFld != "" {
						fld = pm.poolFld // the field that holds the *sync.Pool, whatever it is called
					}
					ok = isPP && pp.Obj != nil && pp.Obj.Name == "*"+paramName(fn, 0)+"."+fld
				}
			}
			c.expect(ok, r("2"), "PoolAllocator.Get", c.pos(fn.Pos()), "returns exactly what sync.Pool.Get returned, untouched", "Get does more than return the pool's item: "+detail)
		}
	}
	// ---- P3: the constructor model (see poolModel): PoolAlloc builds a fresh sync.Pool whose New function returns,
	// per call, a fresh buffer shaped by the Allocator argument; everything else the PoolAllocator stores is a value
	if fn := c.anchor(r("3"), "PoolAlloc"); fn != nil {
		pm := c.poolModel()
		c.expect(pm.ok, r("3"), "PoolAlloc", c.pos(fn.Pos()), "a fresh sync.Pool plus values computed from the argument allocator", "PoolAlloc shape: "+pm.why)
		if pm.ok {
			a := pm.a
			chn, ln, cp := mkAtom(a+".Channels", intT), mkAtom(a+".Length", intT), mkAtom(a+".Capacity", intT)
			okN, d := pm.newOK, pm.newWhy
			adm := admissibleAllocator(chn, ln, cp)
			same := func(got, want *Term) bool { return got != nil && (eqInt(got, want) || eqUnder(got, want, adm)) }
			if okN && !(same(pm.newLen, specMul(chn, ln)) && same(pm.newCap, specMul(chn, cp)) && pm.newCh != nil && eqInt(pm.newCh, chn)) {
				okN, d = false, fmt.Sprintf("New's buffer is not Alloc(argument allocator): len %s cap %s channels %s", pretty(canonOrNil(pm.newLen)), pretty(canonOrNil(pm.newCap)), pretty(canonOrNil(pm.newCh)))
			}
			pos := pm.newPos
			if pos == "" {
				pos = c.pos(fn.Pos())
			}
			c.expect(okN, r("3"), "PoolAlloc.New", pos, "New returns Alloc[T](argument allocator): fresh per call", d)
		}
	}
}

func checkC10(c *Checker) {
	depthInvariant(c, "C10-D0")
	c.rule("C10-P1", "state of the object handed to sync.Pool.Put on every path: the caller's buffer, len(data) = Channels*Length, zeroed over [0, cap), cap unchanged, nothing else written, publication last", 6)
	c.rule("C10-P2", "Get returns the value obtained from sync.Pool.Get, type-asserted, with no store through it and no other flow of it", 1)
	c.rule("C10-P3", "New returns Alloc[T] of the allocator stored in the PoolAllocator (captured by value, never written)", 2)
	c.rule("C10-P4", "the buffer escapes only into sync.Pool.Put; nothing else retains it or its storage", 1)
	c.NotDecided = append(c.NotDecided, "the sync.Pool contract (an item is handed to at most one Get per Put) is trusted", "the induction over get/use/put histories is a paper argument over P1-P4 and C13")
	c.Trusted = append(c.Trusted, "sync.Pool: each item put is returned by at most one Get; otherwise New")
	poolObligations(c, "C10-P")
}

func checkC11(c *Checker) {
	c.rule("C11-Q1", "the only state shared between goroutines that Get/Put touch is the *sync.Pool: no store to a field of the allocator, to a global, or to memory reachable from it; field table {pool *sync.Pool, alloc Allocator}", 3)
	c.rule("C11-Q2", "ownership transfer: all writes in Put are to the caller's buffer and sync.Pool.Put is the last effect on every path", 1)
	c.rule("C11-Q3", "New allocates per call and reads only immutable captured state", 1)
	c.rule("C11-Q4-P1", "freshness obligations of C10 re-evaluated (P1)", 6)
	c.rule("C11-Q4-P2", "freshness obligations of C10 re-evaluated (P2)", 1)
	c.rule("C11-Q4-P3", "freshness obligations of C10 re-evaluated (P3)", 2)
	c.rule("C11-Q4-P4", "freshness obligations of C10 re-evaluated (P4)", 1)
	c.NotDecided = append(c.NotDecided, "the race detector's dynamic verdict; sync.Pool itself is trusted to be safe for concurrent use", "GC interaction (dropped pool items are re-created by New: covered by Q3/C13, not by execution)")
	c.Trusted = append(c.Trusted, "sync.Pool is safe for concurrent use (documented)")
	// field table
	if tn, ok := c.W.Pkg.Types.Scope().Lookup("PoolAllocator").(*types.TypeName); ok {
		st, _ := tn.Type().Underlying().(*types.Struct)
		// exactly one *sync.Pool; everything else is a value without references (it is set by the constructor and
		// only read afterwards: the stores are checked per function below)
		okT := st != nil
		desc := ""
		if st != nil {
			nPool := 0
			for i := 0; i < st.NumFields(); i++ {
				ft := st.Field(i).Type()
				desc += st.Field(i).Name() + " " + typeKey(ft) + "; "
				if pt, isP := ft.(*types.Pointer); isP && typeKey(pt.Elem()) == "sync.Pool" {
					nPool++
					continue
				}
				if !plainValueType(ft, 0) {
					okT = false
				}
			}
			if nPool != 1 {
				okT = false
			}
		}
		c.expect(okT, "C11-Q1", "PoolAllocator/fields", c.pos(tn.Pos()), "fields: "+desc, "PoolAllocator has state other than one *sync.Pool and plain values: "+desc)
	} else {
		c.undecided("C11-Q1", "PoolAllocator/fields", "", "type PoolAllocator does not resolve")
	}
	for _, name := range []string{"Get", "Put"} {
		fn := c.anchor("C11-Q1", "(*PoolAllocator[T])."+name)
		if fn == nil {
			continue
		}
		s := c.Summary(fn)
		if c.undecidedEffects("C11-Q1", "PoolAllocator."+name, s) {
			continue
		}
		ok := true
		detail := ""
		bObj, bStor := "", ""
		if name == "Put" {
			b := buf{paramName(fn, 1)}
			bObj, bStor = b.obj(), b.stor()
		}
		for _, o := range s.Outcomes {
			for _, e := range mods(o) {
				switch {
				case isPoolCall(e, "Get"), isPoolCall(e, "Put"):
				case (e.Kind == EStoreField || e.Kind == ESetCap) && e.Obj.Name == bObj:
				case (e.Kind == EStoreElem || e.Kind == ECopy || e.Kind == EClear) && e.Stor != nil && e.Stor.Name == bStor:
				default:
					ok = false
					detail = "shared or foreign state touched: " + e.String() + " at " + c.effPos(e)
				}
			}
		}
		c.expect(ok, "C11-Q1", "PoolAllocator."+name, c.pos(fn.Pos()), "touches only the pool and (Put) the caller's buffer", detail)
	}
	// Q2 is the publication-last obligation of P1; Q3 is P3's closure obligation: both are emitted by poolObligations
	poolObligations(c, "C11-Q4-P")
	for _, o := range c.Obligs {
		if o.Rule == "C11-Q4-P1" && o.Instance == "PoolAllocator.Put/publication-last" {
			c.add("C11-Q2", o.Instance, o.Pos, o.Verdict, o.Detail, o.Witness)
		}
		if o.Rule == "C11-Q4-P3" && o.Instance == "PoolAlloc.New" {
			c.add("C11-Q3", o.Instance, o.Pos, o.Verdict, o.Detail, o.Witness)
		}
	}
}

// ---------------- C12 ----------------

// entryFunctions returns the source functions of the package (generic bodies, methods, closures).
func (c *Checker) entryFunctions() []*ssa.Function {
	var out []*ssa.Function
	for _, fn := range c.W.sortedFuncs() {
		if fn.Origin() != nil || fn.Synthetic != "" || len(fn.Blocks) == 0 {
			continue
		}
		if fn.Name() == "init" {
			continue
		}
		// the entry points are the exported functions and methods, plus closures (run by sync.Pool);
		// unexported helpers are analysed where they are called (inlined into their callers)
		if fn.Parent() == nil && !fnExported(fn) {
			continue
		}
		// scalar utilities (BitDepth and Frequency methods, Scale) touch no buffer: they belong to C16/C17 only
		if scalarDomain(fn) {
			continue
		}
		out = append(out, fn)
	}
	return out
}

func isBufferType(t types.Type) bool {
	n, ok := t.(*types.Named)
	return ok && n.Obj().Name() == "Buffer"
}

func checkC12(c *Checker) {
	c.rule("C12-V1", "who may write a header: every store to Buffer.channels/data/bitDepth outside a fresh object targets the operation's own receiver/argument directly (never a header reached through another object or a global)", 2)
	c.rule("C12-V2", "what is stored: the new data is derived from the old data of the same header by slice expression, append or SetCap (storage kept, or replaced exactly when append grows)", 2)
	c.rule("C12-V3", "every sample write is an index expression on the slice loaded from the header being operated on (or on the caller's destination slice / fresh storage)", 10)
	c.rule("C12-V4", "no function hands out or retains the backing slice of a buffer (so caller slices never alias buffer storage)", 20)
	c.NotDecided = append(c.NotDecided, "the induction over operation histories (each operation is one Go slice primitive on the view's own header, C02-C04 give the primitives) is a paper argument; the bounded history enumeration of the quantifier is subsumed, not executed")
	nHdr, nElem := 0, 0
	for _, fn := range c.entryFunctions() {
		s := c.Summary(fn)
		name := shortFn(c.W, fn)
		if c.undecidedEffects("C12-V1", name, s) {
			continue
		}
		params := map[string]bool{}
		for _, p := range fn.Params {
			if isBufferPtr(p.Type()) {
				params["*"+p.Name()] = true
			}
		}
		okV1, okV2, okV3, okV4 := true, true, true, true
		var d1, d2, d3, d4 string
		hasHdr, hasElem := false, false
		for _, o := range s.Outcomes {
			for _, e := range o.St.effects {
				switch e.Kind {
				case EStoreField, ESetCap:
					if !isBufferType(e.Obj.Typ) {
						// a store into some other non-fresh object: must not leak a backing slice
						if e.Kind == EStoreField && leaksData(e.Val) {
							okV4, d4 = false, "backing slice stored into "+e.Obj.Name+" at "+c.effPos(e)
						}
						continue
					}
					hasHdr = true
					if !params[e.Obj.Name] {
						okV1, d1 = false, fmt.Sprintf("header of %s (not the operation's own receiver/argument) is written at %s", e.Obj.Name, c.effPos(e))
					}
					fi := bufferFields(e.Obj.Typ)
					if fi == nil || len(e.Path) != 1 {
						okV1, d1 = false, "unresolved header field at "+c.effPos(e)
						continue
					}
					if !pathEq(e.Path, fi.data) {
						okV1, d1 = false, fmt.Sprintf("channels/bitDepth of an existing buffer is written at %s", c.effPos(e))
						continue
					}
					if e.Kind == EStoreField {
						nv, isS := e.Val.(SliceV)
						own := strings.TrimPrefix(e.Obj.Name, "*") + hdrLayout.dataSuffix()
						// storage made in this very call is nobody else's: moving a header to it (an Append that spells
						// its growth out) cannot make two buffers share storage; what goes into it is C03's business
						madeHere := isS && nv.Stor != nil && nv.Stor.Kind == SFresh
						if !madeHere && (!isS || nv.Stor == nil || !derivedFrom(nv.Stor, own)) {
							okV2, d2 = false, fmt.Sprintf("data of %s is replaced by a slice not derived from its own data: %s at %s", e.Obj.Name, valString(e.Val), c.effPos(e))
						}
					}
				case EStoreElem, ECopy, EClear:
					hasElem = true
					st := e.Stor
					okStor := false
					switch {
					case st == nil:
					case st.Kind == SFresh || st.Kind == SGrown || st.Kind == SArrayObj:
						okStor = true
					case strings.HasSuffix(st.Name, hdrLayout.dataSuffix()):
						okStor = true
					default:
						// caller-supplied destination slice (Read / ReadStriped)
						root := st
						for root.Parent != nil {
							root = root.Parent
						}
						for _, p := range fn.Params {
							if _, isS := p.Type().Underlying().(*types.Slice); isS && p.Name() == root.Name {
								okStor = true
							}
						}
					}
					if !okStor {
						okV3, d3 = false, "sample write into "+st.Key()+" at "+c.effPos(e)
					}
				case ECall:
					for _, a := range e.Args {
						if leaksData(a) {
							okV4, d4 = false, "backing slice passed to "+e.Callee+" at "+c.effPos(e)
						}
					}
				}
			}
			if o.Kind == ORet && leaksDataRet(o.Ret, o) {
				okV4, d4 = false, "a backing slice is returned to the caller"
			}
		}
		p := c.pos(fn.Pos())
		if hasHdr {
			nHdr++
			c.expect(okV1, "C12-V1", name, p, "header stores target the own receiver/argument", d1)
			c.expect(okV2, "C12-V2", name, p, "new data derived from the own old data", d2)
		} else if !okV1 {
			c.refuted("C12-V1", name, p, d1, "")
		}
		if hasElem {
			nElem++
			c.expect(okV3, "C12-V3", name, p, "sample writes go through the view's own slice", d3)
		}
		c.expect(okV4, "C12-V4", name, p, "no backing slice escapes", d4)
	}
	// V5: the growing operations never panic where the slice model does not
	c.rule("C12-V5", "no panic the slice model does not have: in Append and AppendSample, past the channel guard, every index, slice bound and capacity-setting argument on every path is implied by the path facts, for arbitrary (also partial-frame) lengths", 2)
	for _, nm := range []string{"(*Buffer[D]).Append", "(*Buffer[T]).AppendSample"} {
		fn := c.anchor("C12-V5", nm)
		if fn == nil {
			continue
		}
		s := c.Summary(fn)
		name := shortFn(c.W, fn)
		if c.undecidedEffects("C12-V5", name, s) {
			continue
		}
		ok, d, p := true, "", c.pos(fn.Pos())
		nB := 0
		for _, o := range s.Outcomes {
			if o.Kind == OPanic && !channelGuardPanic(fn, o) {
				ok, d, p = false, "explicit panic past the channel guard: "+factsBrief(o.St.facts), c.pos(o.Pos)
			}
			for _, e := range o.St.effects {
				switch e.Kind {
				case EIndex:
					nB++
					if !vacuous(e) && !boundsImpliedUnder(e, positiveChannels(fn, e.Facts)) {
						ok, d, p = false, fmt.Sprintf("bounds of %s are not implied (path: %s)", e.String(), factsBrief(e.Facts)), c.effPos(e)
					}
				case ESetCap:
					nB++
					if e.Dst == nil || e.N == nil {
						ok, d, p = false, "unresolved "+e.Note, c.effPos(e)
						continue
					}
					f := positiveChannels(fn, e.Facts)
					if f.impliesGE0(polyInt(-1)) {
						continue // a path only a negative channel count takes
					}
					n := normInt(e.N)
					lo, hi := normInt(e.Dst.Len), normInt(e.Dst.Cap)
					// the slice whose capacity is set exists: 0 <= len <= cap, whatever terms describe them
					f.add(Cond{Kind: CGE0, P: lo, Tag: "axiom"})
					f.add(Cond{Kind: CGE0, P: hi.Sub(lo), Tag: "axiom"})
					f.add(Cond{Kind: CGE0, P: hi, Tag: "axiom"})
					if e.Note == "SetLen" {
						lo = newPoly()
					}
					// a capacity computed by a policy helper is a conditional term: judge every feasible case
					if e.Dst.Cap != nil && (!f.impliesGE0(n.Sub(lo)) || !f.impliesGE0(hi.Sub(n))) {
						all, nc := true, 0
						for _, cs := range casesOf(canon(e.Dst.Cap), f, 0) {
							cf := simplifyFacts(cs.facts, cs.facts)
							if cf.impliesGE0(polyInt(-1)) {
								continue
							}
							n2 := normInt(simplifyUnder(canon(e.N), cf))
							lo2 := normInt(simplifyUnder(canon(e.Dst.Len), cf))
							if e.Note == "SetLen" {
								lo2 = newPoly()
							}
							hi2 := normInt(simplifyUnder(cs.val, cf))
							nc++
							if !cf.impliesGE0(n2.Sub(lo2)) || !cf.impliesGE0(hi2.Sub(n2)) {
								all = false
							}
						}
						if all && nc >= 1 {
							continue
						}
					}
					if !f.impliesGE0(n.Sub(lo)) {
						ok, d, p = false, fmt.Sprintf("%s(%s) can be below the length %s: reflect panics (path: %s)", e.Note, pretty(canon(e.N)), pretty(canon(e.Dst.Len)), factsBrief(e.Facts)), c.effPos(e)
					} else if !f.impliesGE0(hi.Sub(n)) {
						ok, d, p = false, fmt.Sprintf("%s(%s) can exceed the capacity %s (path: %s)", e.Note, pretty(canon(e.N)), pretty(canon(e.Dst.Cap)), factsBrief(e.Facts)), c.effPos(e)
					}
				}
			}
		}
		c.Extra["C12-V5 bounds checked in "+name] = nB
		if ok {
			c.proved("C12-V5", name, p, fmt.Sprintf("%d index/slice/SetCap bounds implied, no panic path past the channel guard", nB))
		} else {
			c.refuted("C12-V5", name, p, d, "a destination holding a partial frame (after AppendSample), grown by Append")
		}
	}
	// unsafe pointer arithmetic would bypass all of the above
	for _, fn := range c.entryFunctions() {
		for _, b := range fn.Blocks {
			for _, in := range b.Instrs {
				if cv, ok := in.(*ssa.Convert); ok {
					if bt, ok := cv.Type().Underlying().(*types.Basic); ok && bt.Kind() == types.UnsafePointer {
						c.refuted("C12-V3", shortFn(c.W, fn)+"/unsafe", c.pos(cv.Pos()), "conversion to unsafe.Pointer", "")
					}
					if bt, ok := cv.X.Type().Underlying().(*types.Basic); ok && bt.Kind() == types.UnsafePointer {
						c.refuted("C12-V3", shortFn(c.W, fn)+"/unsafe", c.pos(cv.Pos()), "conversion from unsafe.Pointer", "")
					}
				}
			}
		}
	}
	// premises: the per-operation summaries the induction composes (each operation is one Go slice primitive
	// on the view's own header). They are the obligations of C02-C04, re-evaluated here so that a change that
	// breaks the model at one operation is reported under C12 as well.
	c.rule("C12-P", "premises of the compositional argument: the C02 (Slice), C03 (Append) and C04 (AppendSample) summaries hold", 10)
	sub := newChecker(c.Prop, c.Tier, c.Seed, c.verifDir)
	sub.W = c.W
	sub.sums = c.sums
	checkC02(sub)
	checkC03(sub)
	checkC04(sub)
	for _, o := range sub.Obligs {
		// the accessor forms (C02-R3) are premises too: Len/Cap/Length/Capacity of every view are observed after every step
		c.add("C12-P", o.Rule+"/"+o.Instance, o.Pos, o.Verdict, o.Detail, o.Witness)
	}
	for f := range sub.Funcs {
		c.Funcs[f] = true
	}
	c.Extra["functions_with_header_stores"] = nHdr
	c.Extra["functions_with_sample_writes"] = nElem
}

func derivedFrom(s *Storage, own string) bool {
	for i := 0; s != nil && i < 8; i++ {
		if s.Name == own {
			return true
		}
		if s.Kind == SGrown && s.From != nil {
			s = s.From.Stor
			continue
		}
		return false
	}
	return false
}

func leaksData(v Val) bool {
	switch x := v.(type) {
	case SliceV:
		return x.Stor != nil && (strings.HasSuffix(x.Stor.Name, hdrLayout.dataSuffix()) || (x.Stor.Kind == SGrown))
	case IfaceV:
		return x.Dyn != nil && leaksData(x.Dyn)
	case StructV:
		for _, f := range x.F {
			if leaksData(f) {
				return true
			}
		}
	case TupleV:
		for _, f := range x.E {
			if leaksData(f) {
				return true
			}
		}
	}
	return false
}

// leaksDataRet: a returned value exposes a backing slice unless it is a Buffer header pointer / channel view.
func leaksDataRet(v Val, o Outcome) bool {
	switch x := v.(type) {
	case SliceV:
		return leaksData(x)
	case TupleV:
		for _, f := range x.E {
			if leaksDataRet(f, o) {
				return true
			}
		}
	case StructV:
		for _, f := range x.F {
			if _, isS := f.(SliceV); isS && leaksData(f) {
				n, _ := x.Typ.(*types.Named)
				if n == nil || n.Obj().Name() != "Buffer" {
					return true
				}
			}
		}
	case IfaceV:
		if x.Dyn != nil {
			return leaksDataRet(x.Dyn, o)
		}
	}
	return false
}

// channelGuardPanic: the panic path is the channel-count guard (its facts say the two channel counts differ).
func channelGuardPanic(fn *ssa.Function, o Outcome) bool {
	if len(fn.Params) < 2 || !isBufferPtr(fn.Params[1].Type()) {
		return false
	}
	a, b := buf{paramName(fn, 0)}, buf{paramName(fn, 1)}
	return hasFact(o.St.facts, Cond{Kind: CNE0, P: normSign(normInt(a.ch()).Sub(normInt(b.ch())))})
}

// positiveChannels adds channels >= 1 for every buffer parameter whose count is known to be non-zero on the path
// (allocators only produce non-negative counts).
func positiveChannels(fn *ssa.Function, f *Facts) *Facts {
	out := f.clone()
	for _, p := range fn.Params {
		if !isBufferPtr(p.Type()) {
			continue
		}
		ch := normInt(buf{p.Name()}.ch())
		out.add(Cond{Kind: CGE0, P: ch})
		if f.eval(Cond{Kind: CNE0, P: normSign(ch)}) == Yes {
			out.add(Cond{Kind: CGE0, P: ch.AddInt(-1)})
		}
	}
	return out
}

// scalarDomain: a method of BitDepth or Frequency (or a closure inside one), or Scale.
func scalarDomain(fn *ssa.Function) bool {
	for f := fn; f != nil; f = f.Parent() {
		if f.Signature.Recv() == nil {
			if f.Name() == "Scale" && f.Parent() == nil {
				return true
			}
			continue
		}
		rt := f.Signature.Recv().Type()
		if p, ok := rt.(*types.Pointer); ok {
			rt = p.Elem()
		}
		if nt, ok := rt.(*types.Named); ok && (nt.Obj().Name() == "BitDepth" || nt.Obj().Name() == "Frequency") {
			return true
		}
	}
	return false
}

// ---------------- pool model ----------------

// poolModel is what the constructor establishes: the value of every scalar field of the PoolAllocator in terms of
// the Allocator passed to PoolAlloc, the sync.Pool object, and the buffer its New function produces. Put's
// conditions are read through it (p.<field> := its constructor term), so the rules do not depend on whether the
// allocator, or counts derived from it, are stored.
type poolModel struct {
	ok      bool
	why     string
	a       string           // name of PoolAlloc's Allocator parameter
	fields  map[string]*Term // "alloc.Channels" -> a.Channels, "capacity" -> a.Capacity*a.Channels, ...
	newLen  *Term            // len/cap/channels of the buffer New returns, over a.*
	newCap  *Term
	newCh   *Term
	newFn   *ssa.Function
	newPos  string
	newOK   bool
	newWhy  string
	poolFld string // field path of the *sync.Pool
}

func (c *Checker) poolModel() *poolModel {
	if c.pm != nil {
		return c.pm
	}
	m := &poolModel{fields: map[string]*Term{}}
	c.pm = m
	fn := c.W.Fn("PoolAlloc")
	if fn == nil {
		m.why = "no function PoolAlloc"
		return m
	}
	s := c.Summary(fn)
	for _, o := range s.Outcomes {
		for _, e := range o.St.effects {
			if e.Kind == EUndecided {
				m.why = "PoolAlloc: " + e.Note
				return m
			}
		}
	}
	// a validation in front of the constructor is fine when only an inadmissible allocator trips it (see C13-A1)
	nPanic := 0
	for _, po := range panicPaths(s) {
		if !c.inadmissibleAllocatorPath(po) {
			nPanic++
		}
	}
	// (and the constructor is read on the path an allocator with channels takes: a validation that lets the
	// zero-channel allocator through on a path of its own builds the same value there)
	rets := retPaths(s)
	if len(rets) > 1 && len(fn.Params) == 1 {
		a := paramName(fn, 0)
		adm := admissibleAllocator(mkAtom(a+".Channels", intT), mkAtom(a+".Length", intT), mkAtom(a+".Capacity", intT))
		adm.add(Cond{Kind: CGE0, P: normInt(mkAtom(a+".Channels", intT)).AddInt(-1)})
		var keep []Outcome
		for _, ro := range rets {
			if feasible(ro, adm) {
				keep = append(keep, ro)
			}
		}
		rets = keep
	}
	if len(rets) != 1 || nPanic != 0 || len(fn.Params) != 1 {
		m.why = "PoolAlloc is not a single straight-line constructor of one Allocator parameter"
		return m
	}
	o := rets[0]
	if ms := mods(o); len(ms) > 0 {
		m.why = "PoolAlloc modifies existing memory: " + describeEffects(ms)
		return m
	}
	m.a = paramName(fn, 0)
	rt := fn.Signature.Results().At(0).Type()
	var pool *Object
	var walk func(v Val, t types.Type, path string)
	walk = func(v Val, t types.Type, path string) {
		switch x := v.(type) {
		case StructV:
			st, ok := t.Underlying().(*types.Struct)
			if !ok {
				return
			}
			for i := 0; i < st.NumFields() && i < len(x.F); i++ {
				pp := st.Field(i).Name()
				if path != "" {
					pp = path + "." + pp
				}
				walk(x.F[i], st.Field(i).Type(), pp)
			}
		case PtrV:
			if x.Obj != nil && typeKey(x.Obj.Typ) == "sync.Pool" {
				if pool != nil {
					m.why = "more than one sync.Pool"
				}
				pool, m.poolFld = x.Obj, path
			} else {
				m.why = "PoolAllocator holds a pointer other than the *sync.Pool (" + path + ")"
			}
		case *Term:
			m.fields[path] = x
		default:
			m.why = fmt.Sprintf("PoolAllocator field %s holds %s", path, valString(v))
		}
	}
	walk(o.Ret, rt, "")
	if m.why != "" {
		return m
	}
	if pool == nil || pool.Kind != OFresh {
		m.why = "PoolAlloc does not build a fresh sync.Pool"
		return m
	}
	m.ok = true
	// the New function
	var clo *ClosureV
	if pv, ok := o.St.mem[pool].(StructV); ok {
		for _, f := range pv.F {
			if cv, isC := f.(ClosureV); isC {
				cc := cv
				clo = &cc
			}
		}
	}
	if clo == nil {
		m.newWhy = "sync.Pool.New is not a function value of this package"
		return m
	}
	m.newFn, m.newPos = clo.Fn, c.pos(clo.Fn.Pos())
	outs := c.W.Interp.RunClosure(*clo, o.St)
	nret := 0
	m.newOK = true
	for _, no := range outs {
		for _, e := range no.St.effects[len(o.St.effects):] {
			if e.Kind == EUndecided {
				m.newOK, m.newWhy = false, "New: "+e.Note
			}
		}
		if no.Kind == OPanic && c.inadmissibleAllocatorPath(no) {
			continue // a validation that only an inadmissible allocator trips (see C13-A1)
		}
		if no.Kind != ORet {
			m.newOK, m.newWhy = false, "New has a non-returning path"
			continue
		}
		nret++
		iv, isI := no.Ret.(IfaceV)
		pv, isP := iv.Dyn.(PtrV)
		if !isI || !isP || pv.Obj == nil || pv.Obj.Kind != OFresh || len(pv.Path) != 0 {
			m.newOK, m.newWhy = false, "New does not return a fresh buffer: "+valString(no.Ret)
			continue
		}
		if _, existed := o.St.mem[pv.Obj]; existed {
			m.newOK, m.newWhy = false, "New returns an object built by PoolAlloc, not a fresh one per call"
			continue
		}
		hdr, _ := no.St.mem[pv.Obj].(StructV)
		fi := bufferFields(pv.Obj.Typ)
		if fi == nil {
			m.newOK, m.newWhy = false, "New does not return a Buffer"
			continue
		}
		dt, _ := fi.at(hdr, fi.data).(SliceV)
		if dt.Stor == nil || dt.Stor.Kind != SFresh {
			m.newOK, m.newWhy = false, "New's buffer does not own fresh storage: "+valString(dt)
			continue
		}
		for _, e := range no.St.effects[len(o.St.effects):] {
			if e.Modifies() && !(e.Stor != nil && e.Stor == dt.Stor) && !(e.Obj != nil && e.Obj == pv.Obj) {
				m.newOK, m.newWhy = false, "New modifies shared state: "+e.String()
			}
		}
		m.newLen, m.newCap, m.newCh = dt.Len, dt.Cap, valTerm(fi.at(hdr, fi.channels))
	}
	if nret == 0 {
		m.newOK, m.newWhy = false, "New has no returning path"
	}
	return m
}

// through rewrites p.<field> atoms by the constructor's terms (over the Allocator argument).
func (m *poolModel) through(p string, t *Term) *Term {
	if t == nil || len(m.fields) == 0 {
		return t
	}
	sub := map[string]*Term{}
	for k, v := range m.fields {
		sub[p+"."+k] = v
	}
	return t.subst(sub)
}

func (m *poolModel) factsThrough(p string, f *Facts) *Facts {
	out := &Facts{}
	for _, c := range f.list {
		if c.P == nil {
			out.add(c)
			continue
		}
		np := normInt(m.through(p, c.P.toTerm()))
		nc := c
		nc.P = np
		if c.Kind == CEQ0 || c.Kind == CNE0 {
			nc.P = normSign(np)
		}
		out.add(nc)
	}
	return out
}

// plainValueType: integers, floats, bools, strings and structs/arrays of those (no pointers, slices, maps, channels,
// functions or interfaces).
func plainValueType(t types.Type, depth int) bool {
	if depth > 4 {
		return false
	}
	switch u := t.Underlying().(type) {
	case *types.Basic:
		return u.Kind() != types.UnsafePointer
	case *types.Struct:
		for i := 0; i < u.NumFields(); i++ {
			if !plainValueType(u.Field(i).Type(), depth+1) {
				return false
			}
		}
		return true
	case *types.Array:
		return plainValueType(u.Elem(), depth+1)
	}
	return false
}
