package main

import (
	"fmt"
	"go/types"
	"sort"
	"strings"

	"golang.org/x/tools/go/ssa"
)

// runAssumed summarises fn with some entry atoms fixed to constants.
func (c *Checker) runAssumed(fn *ssa.Function, assume map[string]*Term) *Summary {
	ip := c.W.Interp
	old := ip.assume
	ip.assume = assume
	defer func() { ip.assume = old }()
	s := ip.Run(fn)
	c.Paths += len(s.Outcomes)
	c.Funcs[shortFn(c.W, fn)] = true
	return s
}

// divisorNonZero: the facts at the effect imply that the divisor is not zero.
func divisorNonZero(e *Effect) (bool, string) {
	d := e.Idx
	for d != nil && d.Op == OpConv {
		d = d.Args[0]
	}
	if d == nil {
		return false, "?"
	}
	if d.IsConst() {
		if f, ok := constFloat(d); ok {
			return f != 0, pretty(d)
		}
	}
	if !isIntLike(d.Typ) {
		return false, pretty(canon(d))
	}
	p := normSign(normInt(d))
	if v, ok := p.IsConst(); ok {
		return v.Sign() != 0, pretty(canon(d))
	}
	return e.Facts.eval(Cond{Kind: CNE0, P: p}) == Yes, pretty(canon(d))
}

// divisionsOfInterest: integer / and %, and float divisions feeding an integer conversion.
func divisionsOfInterest(o Outcome) []*Effect {
	var out []*Effect
	convs := effectsOf(o, EConvert)
	for _, e := range effectsOf(o, EDiv) {
		if isTypeParam(e.Typ) {
			continue // kernel arithmetic in the element type: covered per instantiation by C06/C07-S0
		}
		if strings.HasPrefix(e.Note, "int") {
			out = append(out, e)
			continue
		}
		dv := valTerm(e.Val)
		for _, cv := range convs {
			if dv != nil && cv.Idx != nil && cv.Idx.contains(func(x *Term) bool { return x == dv }) && isIntLike(cv.Typ) {
				out = append(out, e)
				break
			}
		}
	}
	return out
}

// channelDerived: the divisor mentions a channel count (a header's channels field,
// or the channel-count parameter of ChannelLength).
func channelDerived(d *Term, fn *ssa.Function) bool {
	if d == nil {
		return false
	}
	return d.contains(func(x *Term) bool {
		if x.Op != OpAtom {
			return false
		}
		if strings.HasSuffix(x.Name, hdrLayout.chSuffix()) || strings.HasSuffix(x.Name, ".Channels") {
			return true
		}
		return fn.Name() == "ChannelLength" && len(fn.Params) == 2 && x.Name == fn.Params[1].Name()
	})
}

func floatNonZero(f *Facts, y *Term) bool {
	for y != nil && y.Op == OpConv {
		y = y.Args[0]
	}
	if y == nil {
		return false
	}
	if y.IsConst() {
		if v, ok := constFloat(y); ok {
			return v != 0
		}
	}
	if isIntLike(y.Typ) {
		return f.eval(Cond{Kind: CNE0, P: normSign(normInt(y))}) == Yes
	}
	return false
}

// isZeroUnder: the integer term is 0 given the facts.
func isZeroUnder(f *Facts, t *Term, depth int) bool {
	if t == nil || depth > 8 {
		return false
	}
	t = canon(t)
	if v, ok := normIntConst(t); ok {
		return v == 0
	}
	switch t.Op {
	case OpIte:
		c := condOf(t.Args[0], false)
		switch f.eval(c) {
		case Yes:
			return isZeroUnder(f, t.Args[1], depth+1)
		case No:
			return isZeroUnder(f, t.Args[2], depth+1)
		}
		f1, f2 := f.clone(), f.clone()
		f1.add(c)
		f2.add(c.Not())
		return isZeroUnder(f1, t.Args[1], depth+1) && isZeroUnder(f2, t.Args[2], depth+1)
	case OpCeilDiv:
		nz := f.eval(Cond{Kind: CNE0, P: normSign(normInt(t.Args[1]))}) == Yes
		return nz && isZeroUnder(f, t.Args[0], depth+1)
	case OpDiv:
		nz := f.eval(Cond{Kind: CNE0, P: normSign(normInt(t.Args[1]))}) == Yes
		return nz && isZeroUnder(f, t.Args[0], depth+1)
	case OpFold:
		if !isZeroUnder(f, t.Args[0], depth+1) {
			return false
		}
		if t.Loop != nil && t.Loop.TripPoly != nil && nonPositive(f, t.Loop.Trip, depth+1) {
			return true
		}
		fl := f.clone()
		if t.Loop != nil && t.Loop.TripPoly != nil {
			fl.add(Cond{Kind: CGE0, P: normInt(t.Loop.K)})
			fl.add(Cond{Kind: CGE0, P: t.Loop.TripPoly.Sub(normInt(t.Loop.K)).AddInt(-1)})
		}
		return isZeroUnder(fl, t.Args[1], depth+1)
	case OpMin:
		a, b := t.Args[0], t.Args[1]
		if (isZeroUnder(f, a, depth+1) && nonNegative(f, b, depth+1)) || (isZeroUnder(f, b, depth+1) && nonNegative(f, a, depth+1)) {
			return true
		}
	case OpRem:
		return isZeroUnder(f, t.Args[0], depth+1) && f.eval(Cond{Kind: CNE0, P: normSign(normInt(t.Args[1]))}) == Yes
	case OpConv:
		// int(math.Ceil(0.0 / y)) with y != 0
		if isIntLike(t.Typ) && t.Args[0].Op == OpCall && strings.HasPrefix(t.Args[0].Name, "math.") && len(t.Args[0].Args) == 1 {
			d := t.Args[0].Args[0]
			if v, ok := constFloat(d); ok {
				return v == 0
			}
			if d.Op == OpDiv {
				if v, ok := constFloat(d.Args[0]); ok && v == 0 {
					return floatNonZero(f, d.Args[1])
				}
			}
		}
	}
	if isIntLike(t.Typ) {
		p := normInt(t)
		if len(p.m) == 1 {
			for k, mo := range p.m {
				if k != "" && len(mo.factors) == 1 && mo.factors[0].Key() != t.Key() {
					return isZeroUnder(f, mo.factors[0], depth+1)
				}
			}
		}
		return f.impliesGE0(p) && f.impliesGE0(p.Neg())
	}
	return false
}

// nonNegative: the integer term is >= 0 given the facts.
func nonNegative(f *Facts, t *Term, depth int) bool {
	if t == nil || depth > 8 {
		return false
	}
	t = canon(t)
	switch t.Op {
	case OpFold:
		if t.Name == "max" {
			return nonNegative(f, t.Args[0], depth+1)
		}
	case OpMin:
		return nonNegative(f, t.Args[0], depth+1) && nonNegative(f, t.Args[1], depth+1)
	case OpMax:
		return nonNegative(f, t.Args[0], depth+1) || nonNegative(f, t.Args[1], depth+1)
	}
	if isZeroUnder(f, t, depth+1) {
		return true
	}
	return isIntLike(t.Typ) && f.impliesGE0(normInt(t))
}

// nonPositive: the integer term is <= 0 given the facts.
func nonPositive(f *Facts, t *Term, depth int) bool {
	if t == nil || depth > 8 {
		return false
	}
	t = canon(t)
	if t.Op == OpMin {
		return nonPositive(f, t.Args[0], depth+1) || nonPositive(f, t.Args[1], depth+1)
	}
	if t.Op == OpIte {
		c := condOf(t.Args[0], false)
		switch f.eval(c) {
		case Yes:
			return nonPositive(f, t.Args[1], depth+1)
		case No:
			return nonPositive(f, t.Args[2], depth+1)
		}
		f1, f2 := f.clone(), f.clone()
		f1.add(c)
		f2.add(c.Not())
		return nonPositive(f1, t.Args[1], depth+1) && nonPositive(f2, t.Args[2], depth+1)
	}
	if isZeroUnder(f, t, depth+1) {
		return true
	}
	return isIntLike(t.Typ) && f.impliesGE0(normInt(t).Neg())
}

// vacuous: the effect lies in a loop whose trip count is provably <= 0.
// nonVacuous drops the effects whose loops or counts are empty under the path's final conditions (conditions on
// entry values established after the effect hold for the whole path).
func nonVacuous(es []*Effect, path *Facts) []*Effect {
	var out []*Effect
	for _, e := range es {
		if !vacuousUnder(e, factsWith(e.Facts, path)) {
			out = append(out, e)
		}
	}
	return out
}

func vacuous(e *Effect) bool { return vacuousUnder(e, e.Facts) }

func vacuousUnder(e *Effect, facts *Facts) bool {
	f := withZeroAtoms(facts)
	if (e.Kind == ECopy || e.Kind == EClear) && e.N != nil && nonPositive(f, e.N, 0) {
		return true
	}
	for _, l := range e.Loops {
		if l.TripPoly != nil && nonPositive(f, l.Trip, 0) {
			return true
		}
	}
	return false
}

type degenerate struct {
	name   string
	assume map[string]*Term
}

func zeroI() *Term { return mkInt(0, intT) }

// scenarios builds the degenerate entry states for the buffer parameters of fn.
func scenarios(fn *ssa.Function) []degenerate {
	var bufs []string
	for _, p := range fn.Params {
		if isBufferPtr(p.Type()) {
			bufs = append(bufs, p.Name())
		}
		// channel view: receiver value with a Buffer pointer field
		if n, ok := p.Type().(*types.Named); ok && n.Obj().Name() == "C" {
			fld := "Buffer"
			if st, isSt := n.Underlying().(*types.Struct); isSt {
				for i := 0; i < st.NumFields(); i++ {
					if pt, isP := st.Field(i).Type().(*types.Pointer); isP && isBufferType(pt.Elem()) {
						fld = st.Field(i).Name()
					}
				}
			}
			bufs = append(bufs, p.Name()+"."+fld)
		}
	}
	var out []degenerate
	for _, b := range bufs {
		out = append(out, degenerate{"zero-length " + b, map[string]*Term{"len(" + b + hdrLayout.dataSuffix() + ")": zeroI()}})
	}
	if len(bufs) > 0 {
		zc, zch := map[string]*Term{}, map[string]*Term{}
		for _, b := range bufs {
			zc["len("+b+hdrLayout.dataSuffix()+")"], zc["cap("+b+hdrLayout.dataSuffix()+")"] = zeroI(), zeroI()
			zch["len("+b+hdrLayout.dataSuffix()+")"], zch["cap("+b+hdrLayout.dataSuffix()+")"] = zeroI(), zeroI()
			zch[b+hdrLayout.chSuffix()] = zeroI()
		}
		out = append(out, degenerate{"zero-capacity", zc}, degenerate{"zero-channels", zch})
	}
	return out
}

func checkC20(c *Checker) {
	c.rule("C20-Z1", "division guards: every integer / and %, and every float division feeding an integer conversion, whose divisor is not an element-typed kernel value, is dominated by divisor != 0 (siblings Length/Capacity test channels == 0)", 4)
	c.rule("C20-Z2", "zero results: on degenerate buffers (zero length, zero capacity, zero channels) every count returned evaluates to 0 and every transfer region is empty", 40)
	c.rule("C20-Z3", "no panic on degenerate input: no division by zero, every index/slice bound is implied or vacuous, the only panic paths are the C15 shape guards", 40)
	c.Assumptions = append(c.Assumptions, "degenerate scenarios are modelled by fixing entry atoms (len/cap/channels) to 0; a zero-channel buffer has len = cap = 0 because Alloc multiplies by the channel count")
	// ---- Z1 on the unconstrained summaries of every source function
	nDiv := 0
	for _, fn := range c.entryFunctions() {
		s := c.Summary(fn)
		name := shortFn(c.W, fn)
		if !fnExported(fn) {
			continue // unexported helpers are judged at their call sites (they are inlined into the entry points)
		}
		if c.undecidedEffects("C20-Z1", name, s) {
			continue
		}
		seen := map[string]bool{}
		for _, o := range s.Outcomes {
			for _, e := range divisionsOfInterest(o) {
				if !channelDerived(e.Idx, fn) {
					continue
				}
				ok, d := divisorNonZero(e)
				key := c.effPos(e)
				if seen[key] && ok {
					continue
				}
				seen[key] = true
				nDiv++
				inst := name + "/" + e.Note + " by " + d
				if ok {
					c.proved("C20-Z1", inst, c.effPos(e), "divisor != 0 on this path")
				} else {
					c.refuted("C20-Z1", inst, c.effPos(e), fmt.Sprintf("%s with divisor %s not dominated by a non-zero test (path: %s)", e.Note, d, factsBrief(e.Facts)),
						"zero channels: "+d+" = 0")
				}
			}
		}
	}
	c.Extra["divisions_checked"] = nDiv
	// ---- Z2 / Z3 per entry point and scenario
	entries := []string{"Read", "Write", "ReadStriped", "WriteStriped", "(*Buffer[D]).Append", "(*Buffer[T]).AppendSample",
		"(*Buffer[T]).Length", "(*Buffer[T]).Capacity", "(*Buffer[T]).Len", "(*Buffer[T]).Cap", "(C[T]).Length", "(C[T]).Capacity",
		"(*Buffer[T]).Slice", "(*Buffer[T]).Channel"}
	entries = append(entries, conversionNames...)
	for _, name := range entries {
		fn := c.anchor("C20-Z2", name)
		if fn == nil {
			continue
		}
		for _, sc := range scenarios(fn) {
			// a zero-length buffer with spare capacity is not degenerate for appends and capacity queries
			if strings.HasPrefix(sc.name, "zero-length") && (strings.Contains(name, "Append") || strings.HasSuffix(name, ".Cap") || strings.HasSuffix(name, ".Capacity")) {
				continue
			}
			// Slice takes arbitrary frame numbers: only a zero-channel buffer makes every window empty
			if strings.HasSuffix(name, ".Slice") && sc.name != "zero-channels" {
				continue
			}
			c.degenerateRun(fn, sc)
		}
	}
	// a pool built from a zero-channel allocator: putting back the buffer it handed out must not panic
	if fn := c.anchor("C20-Z3", "(*PoolAllocator[T]).Put"); fn != nil && len(fn.Params) == 2 {
		p, b := paramName(fn, 0), paramName(fn, 1)
		asm := map[string]*Term{b + hdrLayout.chSuffix(): zeroI(), "len(" + b + hdrLayout.dataSuffix() + ")": zeroI(), "cap(" + b + hdrLayout.dataSuffix() + ")": zeroI()}
		// the PoolAllocator's fields as its constructor sets them for an allocator with zero channels
		if pm := c.poolModel(); pm.ok {
			for k, v := range pm.fields {
				asm[p+"."+k] = canon(v.subst(map[string]*Term{pm.a + ".Channels": zeroI()}))
			}
		} else {
			asm[p+".alloc.Channels"] = zeroI()
		}
		s := c.runAssumed(fn, asm)
		inst := shortFn(c.W, fn) + " @ zero-channel pool"
		if !c.undecidedEffects("C20-Z3", inst, s) {
			okP := true
			d := ""
			for _, o := range s.Outcomes {
				if o.Kind == OPanic {
					okP, d = false, "Put of the pool's own zero-channel buffer can panic: "+factsBrief(o.St.facts)
				}
			}
			c.expect(okP, "C20-Z3", inst, c.pos(fn.Pos()), "no panic path", d)
		}
	}
	// allocating from a zero-channel allocator (which includes the zero value) must not panic, whatever its Length
	// and Capacity say: both products are 0
	for _, name := range []string{"Alloc", "PoolAlloc"} {
		fn := c.anchor("C20-Z3", name)
		if fn == nil || len(fn.Params) != 1 {
			continue
		}
		a := paramName(fn, 0)
		s := c.runAssumed(fn, map[string]*Term{a + ".Channels": zeroI()})
		inst := shortFn(c.W, fn) + " @ zero-channel allocator"
		if c.undecidedEffects("C20-Z3", inst, s) {
			continue
		}
		okA, d := true, ""
		for _, o := range s.Outcomes {
			if o.Kind == OPanic {
				okA, d = false, "allocation from a zero-channel allocator can panic: "+factsBrief(o.St.facts)
			}
			for _, e := range divisionsOfInterest(o) {
				if ok, dv := divisorNonZero(e); !ok {
					okA, d = false, fmt.Sprintf("%s by %s at %s on a zero-channel allocator", e.Note, dv, c.effPos(e))
				}
			}
		}
		c.expect(okA, "C20-Z3", inst, c.pos(fn.Pos()), "no panic path", d)
	}
	// ChannelLength with zero channels / zero length
	if fn := c.anchor("C20-Z2", "ChannelLength"); fn != nil {
		c.degenerateRun(fn, degenerate{"zero-channels", map[string]*Term{paramName(fn, 1): zeroI()}})
		c.degenerateRun(fn, degenerate{"zero-length", map[string]*Term{paramName(fn, 0): zeroI()}})
	}
}

func fnExported(fn *ssa.Function) bool {
	if fn.Parent() != nil {
		return false
	}
	if o := fn.Object(); o != nil {
		return o.Exported()
	}
	return false
}

func factsBrief(f *Facts) string {
	var parts []string
	for _, c := range nonAxiomFacts(f) {
		parts = append(parts, c.String())
	}
	if len(parts) == 0 {
		return "unconditional"
	}
	return strings.Join(parts, " ∧ ")
}

func (c *Checker) degenerateRun(fn *ssa.Function, sc degenerate) {
	s := c.runAssumed(fn, sc.assume)
	inst := shortFn(c.W, fn) + " @ " + sc.name
	if c.undecidedEffects("C20-Z3", inst, s) {
		return
	}
	// shape-guard panics are legitimate; anything else is not
	okZ2, okZ3 := true, true
	var d2, d3 string
	var w3 string
	// Channel(c): an index outside [0, channels) is an invalid argument, not a degenerate buffer (a zero-channel
	// buffer has no valid index at all, so there every c is kept)
	var validC *Facts
	if fn.Name() == "Channel" && len(fn.Params) == 2 && sc.name != "zero-channels" {
		validC = &Facts{}
		cAtom := normInt(mkAtom(paramName(fn, 1), intT))
		validC.add(Cond{Kind: CGE0, P: cAtom})
		validC.add(Cond{Kind: CGE0, P: normInt(buf{paramName(fn, 0)}.ch()).Sub(cAtom).AddInt(-1)})
	}
	for _, o := range s.Outcomes {
		if validC != nil && !feasible(o, validC) {
			continue
		}
		if o.Kind == OPanic {
			// the shape guard: the decisive (last) condition of the path says two counts differ; pure reads
			// (bit depths) may have been compared before it
			guard := false
			if fs := nonAxiomFacts(o.St.facts); len(fs) > 0 {
				last := fs[len(fs)-1]
				guard = last.Kind == CNE0 && last.P != nil && last.P.mentions(func(x *Term) bool {
					return x.Op == OpAtom && (strings.HasSuffix(x.Name, hdrLayout.chSuffix()) || strings.HasPrefix(x.Name, "len("))
				})
			}
			if !guard || len(mods(o)) > 0 {
				okZ3, d3 = false, "panic path on degenerate input: "+factsBrief(o.St.facts)
			}
			continue
		}
		for _, e := range divisionsOfInterest(o) {
			if vacuous(e) {
				continue
			}
			if ok, d := divisorNonZero(e); !ok {
				okZ3, d3 = false, fmt.Sprintf("%s by %s at %s on degenerate input", e.Note, d, c.effPos(e))
				w3 = sc.name
			}
		}
		for _, e := range effectsOf(o, EIndex) {
			if vacuous(e) {
				continue
			}
			if !boundsImplied(e) {
				okZ3, d3 = false, fmt.Sprintf("bounds of %s at %s are not implied on degenerate input", e.String(), c.effPos(e))
			}
		}
		for _, e := range mods(o) {
			if vacuous(e) {
				continue
			}
			if (e.Kind == EStoreField || e.Kind == ESetCap) && isBufferType(e.Obj.Typ) && emptyHeaderEffect(e, o) {
				continue
			}
			okZ2, d2 = false, "non-empty effect on a degenerate buffer: "+e.String()+" at "+c.effPos(e)
		}
		if t := valTerm(o.Ret); t != nil && isIntLike(t.Typ) && returnsCount(fn) {
			if !isZeroUnder(o.St.facts, t, 0) {
				okZ2, d2 = false, fmt.Sprintf("returns %s, not 0 (path: %s)", pretty(canon(t)), factsBrief(o.St.facts))
			}
		}
	}
	c.expect(okZ2, "C20-Z2", inst, c.pos(fn.Pos()), "returns 0, transfers nothing", d2)
	if okZ3 {
		c.proved("C20-Z3", inst, c.pos(fn.Pos()), "no panic, no division by zero, bounds implied or vacuous")
	} else {
		c.refuted("C20-Z3", inst, c.pos(fn.Pos()), d3, w3)
	}
}

// returnsCount: the int result is a count/length that must be 0 on degenerate buffers.
func returnsCount(fn *ssa.Function) bool {
	sig := fn.Signature
	return sig.Results().Len() == 1 && isIntLike(sig.Results().At(0).Type())
}

// boundsImplied: the index or slice bounds are implied by the facts at the effect.
func boundsImplied(e *Effect) bool { return boundsImpliedUnder(e, e.Facts) }

func boundsImpliedUnder(e *Effect, facts *Facts) bool {
	// a bound chosen by a pure helper arrives as a conditional term: every feasible case must be implied
	for _, pt := range []**Term{&e.Max, &e.Hi, &e.Lo, &e.Idx} {
		if *pt == nil || !isIntLike((*pt).Typ) {
			continue
		}
		if ct := canon(*pt); ct.Op == OpIte {
			for _, cs := range casesOf(ct, facts, 0) {
				e2 := *e
				switch pt {
				case &e.Max:
					e2.Max = cs.val
				case &e.Hi:
					e2.Hi = cs.val
				case &e.Lo:
					e2.Lo = cs.val
				case &e.Idx:
					e2.Idx = cs.val
				}
				if !boundsImpliedUnder(&e2, cs.facts) {
					return false
				}
			}
			return true
		}
	}
	f := withZeroAtoms(facts)
	// a bound that is zero on the degenerate input (e.g. the frame count of an empty buffer) is read as 0
	nz := func(t *Term) *Poly {
		if t != nil && isIntLike(t.Typ) && isZeroUnder(f, t, 0) {
			return newPoly()
		}
		return normInt(t)
	}
	if e.Note == "slice" {
		lo, hi := nz(e.Lo), nz(e.Hi)
		capEnd := nz(e.N)
		if e.Max != nil {
			mx := nz(e.Max)
			return f.impliesGE0(lo) && f.impliesGE0(hi.Sub(lo)) && f.impliesGE0(mx.Sub(hi)) && f.impliesGE0(capEnd.Sub(mx))
		}
		return f.impliesGE0(lo) && f.impliesGE0(hi.Sub(lo)) && f.impliesGE0(capEnd.Sub(hi))
	}
	idx, ln := nz(e.Idx), nz(e.Hi)
	return f.impliesGE0(idx) && f.impliesGE0(ln.Sub(idx).AddInt(-1))
}

// emptyHeaderEffect: a header store that leaves the buffer empty (len 0), e.g. Append of an empty buffer.
func emptyHeaderEffect(e *Effect, o Outcome) bool {
	switch e.Kind {
	case EStoreField:
		sv, ok := e.Val.(SliceV)
		return ok && isZeroUnder(e.Facts, sv.Len, 0)
	case ESetCap:
		return e.Dst != nil && isZeroUnder(e.Facts, e.Dst.Len, 0) && isZeroUnder(e.Facts, e.N, 0)
	}
	return false
}

var _ = sort.Strings
