package main

import (
	"fmt"
	"go/types"
)

// region describes one contiguous element transfer of a path.
type region struct {
	stor     *Storage
	start    *Poly // first written position (storage-relative)
	count    *Poly
	srcStor  *Storage // nil: constant fill
	srcStart *Poly
	zero     bool
	eff      *Effect
}

// regionOf turns an element-writing effect into a region; ok=false when the
// effect is not of a recognised contiguous form.
func regionOf(e *Effect) (region, bool) {
	switch e.Kind {
	case EStoreElem:
		if len(e.Loops) != 1 {
			return region{}, false
		}
		l := e.Loops[0]
		idx := normInt(e.Idx)
		co, other := idx.coefOf(l.K)
		if other || co.Cmp(bigOne) != 0 {
			return region{}, false
		}
		r := region{stor: e.Stor, start: idx.Sub(normInt(l.K)), count: l.TripPoly, eff: e}
		v := valTerm(e.Val)
		if v == nil {
			return region{}, false
		}
		inner, n := stripConv(v)
		if inner.Op == OpElem && n == 0 {
			si := normInt(inner.Args[0])
			co, other := si.coefOf(l.K)
			if other || co.Cmp(bigOne) != 0 {
				return region{}, false
			}
			r.srcStor, r.srcStart = inner.Stor, si.Sub(normInt(l.K))
			return r, true
		}
		if z, ok := normIntConst(v); ok && z == 0 {
			r.zero = true
			return r, true
		}
		return region{}, false
	case ECopy:
		if e.Dst == nil || e.Src == nil || e.Dst.Stor == nil {
			return region{}, false
		}
		r := region{stor: e.Dst.Stor, start: normInt(e.Dst.Off), count: normInt(canon(e.N)), eff: e}
		if e.Src.Stor != nil && e.Src.Stor.Kind == SFresh {
			r.zero = true
			return r, true
		}
		r.srcStor, r.srcStart = e.Src.Stor, normInt(e.Src.Off)
		return r, true
	case EClear:
		if e.Dst == nil || e.Dst.Stor == nil {
			return region{}, false
		}
		return region{stor: e.Dst.Stor, start: normInt(e.Dst.Off), count: normInt(e.N), zero: true, eff: e}, true
	}
	return region{}, false
}

func checkC03(c *Checker) {
	c.rule("C03-R1", "branch term: in place exactly when cap >= len(dst)+len(src) (same storage, len grows by len(src), no reallocation); otherwise append grows into new storage", 2)
	c.rule("C03-R2", "copy region: dst.data[len0(dst)+i] <- src.data[i], 0 <= i < len0(src); no other element store; the source is not written", 2)
	c.rule("C03-R3", "alias safety (self-append): no use of the source's len/cap after the destination header was replaced", 2)
	c.rule("C03-R4", "capacity: the only other header effect trims cap to c - c mod channels (never larger than c)", 1)
	c.Assumptions = append(c.Assumptions, "Go specification: append beyond capacity allocates new storage and copies the prefix; reflect.Value.SetCap sets the capacity of the addressed slice",
		"sources overlapping the destination's spare capacity are excluded by the quantifier (other than the destination itself)")
	fn := c.anchor("C03-R1", "(*Buffer[D]).Append")
	if fn == nil {
		return
	}
	s := c.Summary(fn)
	if c.undecidedEffects("C03-R1", "Buffer.Append", s) {
		return
	}
	dst, src := buf{paramName(fn, 0)}, buf{paramName(fn, 1)}
	assume := channelsPositive(dst, src)
	guardNE := Cond{Kind: CNE0, P: normSign(normInt(dst.ch()).Sub(normInt(src.ch())))}
	for _, o := range panicPaths(s) {
		if !hasFact(o.St.facts, guardNE) {
			c.refuted("C03-R1", "Buffer.Append/panic-path", c.pos(o.Pos), "explicit panic path other than the channel guard: "+o.St.facts.String(), "")
		}
	}
	fits := Cond{Kind: CGE0, P: normInt(dst.capT()).Sub(normInt(dst.lenT())).Sub(normInt(src.lenT()))}
	newLen := normInt(dst.lenT()).Add(normInt(src.lenT()))
	fi := bufferFields(fn.Params[0].Type().Underlying().(*types.Pointer).Elem())
	if fi == nil {
		c.undecided("C03-R1", "Buffer.Append", c.pos(fn.Pos()), "cannot resolve Buffer fields")
		return
	}
	nIn, nGrow := 0, 0
	for _, o := range retPaths(s) {
		if !feasible(o, assume) {
			continue
		}
		var which string
		switch o.St.facts.eval(fits) {
		case Yes:
			which = "in-place"
			nIn++
		case No:
			which = "grow"
			nGrow++
		default:
			c.refuted("C03-R1", "Buffer.Append/branch", c.pos(o.Pos), "a path is not decided by the test cap(dst) < len(dst)+len(src): "+o.St.facts.String(), "")
			continue
		}
		inst := "Buffer.Append/" + which
		// final header
		hdr, _ := o.St.mem[objByName(o, dst.obj())].(StructV)
		var data SliceV
		if len(hdr.F) >= 3 {
			data, _ = hdr.F[fi.data].(SliceV)
		}
		grows := effectsOf(o, EGrow)
		var target *Storage
		okR1 := false
		detail := ""
		if which == "in-place" {
			okR1 = len(grows) == 0 && data.Stor != nil && data.Stor.Name == dst.stor() && eqInt(data.Off, zeroT()) && normInt(data.Len).Equal(newLen)
			target = data.Stor
			detail = fmt.Sprintf("final data %s, %d growing appends", valString(data), len(grows))
		} else {
			okR1 = len(grows) == 1 && !grows[0].Stor.May && grows[0].Dst.Stor != nil && grows[0].Dst.Stor.Name == dst.stor() && eqInt(grows[0].Dst.Len, dst.lenT()) &&
				eqInt(grows[0].Dst.Off, zeroT()) && eqInt(grows[0].N, src.lenT()) && data.Stor == grows[0].Stor && normInt(data.Len).Equal(newLen)
			target = data.Stor
			detail = fmt.Sprintf("final data %s, %d growing appends", valString(data), len(grows))
		}
		c.expect(okR1, "C03-R1", inst, c.pos(o.Pos), "header: "+valString(data), "header/branch shape wrong on the "+which+" path: "+detail)
		// element writes
		var regs []region
		bad := 0
		var badDesc []*Effect
		for _, e := range mods(o) {
			switch e.Kind {
			case EStoreElem, ECopy, EClear:
				r, ok := regionOf(e)
				if !ok {
					bad++
					badDesc = append(badDesc, e)
					continue
				}
				regs = append(regs, r)
			case EStoreField, ESetCap:
				if e.Obj.Name != dst.obj() || len(e.Path) != 1 || e.Path[0] != fi.data {
					bad++
					badDesc = append(badDesc, e)
				}
			default:
				bad++
				badDesc = append(badDesc, e)
			}
		}
		okCopy := false
		// appended directly from the source: append(dst.data, src.data...)
		if which == "grow" && len(grows) == 1 && grows[0].Src.Stor != nil && grows[0].Src.Stor.Name == src.stor() && eqInt(grows[0].Src.Off, zeroT()) && grows[0].Src.Stale == "" {
			okCopy = true
		}
		for _, r := range regs {
			if r.stor == target && r.start.Equal(normInt(dst.lenT())) && r.count.Equal(normInt(src.lenT())) && r.srcStor != nil && r.srcStor.Name == src.stor() && r.srcStart.IsZero() && !okCopy {
				okCopy = true
				continue
			}
			if r.stor == target && okCopy && r.zero && r.start.Equal(normInt(dst.lenT())) {
				continue // zero fill of the appended part before the copy
			}
			bad++
			badDesc = append(badDesc, r.eff)
		}
		c.expect(okCopy && bad == 0, "C03-R2", inst, c.pos(o.Pos), "data[len0(dst)+i] <- src.data[i], i < len0(src); nothing else written",
			fmt.Sprintf("copy region found: %v; %d unexpected effects: %s", okCopy, bad, describeEffects(badDesc)))
		hz := effectsOf(o, EHazard)
		if len(hz) == 0 {
			c.proved("C03-R3", inst, c.pos(o.Pos), "no use of the source header after the destination header store")
		} else {
			c.refuted("C03-R3", inst, c.effPos(hz[0]), fmt.Sprintf("%d uses of a possibly stale source header; first: %s", len(hz), hz[0].Note),
				"b.Append(b) on a non-empty buffer: the loop bound doubles after dst.data was replaced")
		}
		// capacity trim
		sc := effectsOf(o, ESetCap)
		okCap := true
		capDetail := "no SetCap"
		for _, e := range sc {
			cur := e.Dst.Cap
			w1 := normInt(cur).Sub(polyAtom(canon(&Term{Op: OpRem, Typ: intT, Args: []*Term{cur, dst.ch()}})))
			w2 := polyAtom(canon(&Term{Op: OpDiv, Typ: intT, Args: []*Term{cur, dst.ch()}})).Mul(normInt(dst.ch()))
			got := normInt(e.N)
			if e.Note != "SetCap" || !(got.Equal(w1) || got.Equal(w2)) {
				okCap = false
			}
			capDetail = "SetCap(" + pretty(canon(e.N)) + ")"
		}
		if which == "grow" && len(sc) == 0 {
			okCap = false
			capDetail = "capacity after growth is not trimmed to a whole number of frames"
		}
		if len(sc) > 1 {
			okCap = false
		}
		c.expect(okCap, "C03-R4", inst, c.pos(o.Pos), capDetail, "capacity effect is not cap - cap mod channels: "+capDetail)
	}
	if nIn == 0 {
		c.refuted("C03-R1", "Buffer.Append/in-place", c.pos(fn.Pos()), "no path appends in place when the capacity suffices", "")
	}
	if nGrow == 0 {
		c.refuted("C03-R1", "Buffer.Append/grow", c.pos(fn.Pos()), "no path grows when the capacity does not suffice", "")
	}
}

func objByName(o Outcome, name string) *Object {
	for ob := range o.St.mem {
		if ob.Name == name {
			return ob
		}
	}
	return nil
}
