package main

import (
	"fmt"
	"go/types"
	"math/big"
)

// region describes one contiguous element transfer of a path.
type region struct {
	stor     *Storage
	start    *Poly // first written position (storage-relative)
	count    *Poly
	srcStor  *Storage // nil: constant fill
	srcStart *Poly
	zero     bool
	eff      *Effect
	conv     int      // number of conversions applied to the copied element (0: a plain copy)
	stride   int64    // > 1: positions start, start+stride, ... (count of them); merged by normalizeRegions
	loop     *LoopCtx // the loop a strided region belongs to
}

// regionOf turns an element-writing effect into a region; ok=false when the
// effect is not of a recognised contiguous form.
func regionOf(e *Effect) (region, bool) {
	switch e.Kind {
	case EStoreElem:
		if len(e.Loops) == 0 {
			// a single store outside any loop (a peeled first or last iteration): a region of one position
			r := region{stor: e.Stor, start: normInt(e.Idx), count: polyConst(big.NewInt(1)), eff: e}
			v := valTerm(e.Val)
			if v == nil {
				return region{}, false
			}
			inner, n := stripConv(v)
			if inner.Op == OpElem && n <= 1 {
				r.srcStor, r.srcStart, r.conv = inner.Stor, normInt(inner.Args[0]), n
				return r, true
			}
			if z, ok := normIntConst(v); ok && z == 0 {
				r.zero = true
				return r, true
			}
			return region{}, false
		}
		if len(e.Loops) != 1 {
			return region{}, false
		}
		l := e.Loops[0]
		idx := normInt(e.Idx)
		co, other := idx.coefOf(l.K)
		if !other && co.IsInt64() && co.Int64() > 1 && l.TripPoly != nil {
			// one of the stores of a loop that consumes several positions per iteration
			st := co.Int64()
			r := region{stor: e.Stor, start: idx.Sub(normInt(l.K).Scale(co)), count: l.TripPoly, eff: e, stride: st, loop: l}
			v := valTerm(e.Val)
			if v == nil {
				return region{}, false
			}
			inner, n := stripConv(v)
			if inner.Op == OpElem && n <= 1 {
				si := normInt(inner.Args[0])
				sc, so := si.coefOf(l.K)
				if so || sc.Cmp(co) != 0 {
					return region{}, false
				}
				r.srcStor, r.srcStart, r.conv = inner.Stor, si.Sub(normInt(l.K).Scale(co)), n
				return r, true
			}
			if z, ok := normIntConst(v); ok && z == 0 {
				r.zero = true
				return r, true
			}
			return region{}, false
		}
		if !other && co.Cmp(big.NewInt(-1)) == 0 {
			// a descending walk: the order of the stores cannot matter when every store writes the same
			// constant (a zero fill); positions idx(k), k = trip-1 .. 0
			if z, ok := normIntConst(valTerm(e.Val)); ok && z == 0 && l.TripPoly != nil {
				return region{stor: e.Stor, start: idx.Add(normInt(l.K)).Sub(l.TripPoly).AddInt(1), count: l.TripPoly, zero: true, eff: e}, true
			}
			return region{}, false
		}
		if other || co.Cmp(bigOne) != 0 {
			return region{}, false
		}
		r := region{stor: e.Stor, start: idx.Sub(normInt(l.K)), count: l.TripPoly, eff: e}
		v := valTerm(e.Val)
		if v == nil {
			return region{}, false
		}
		inner, n := stripConv(v)
		if inner.Op == OpElem && n <= 1 {
			si := normInt(inner.Args[0])
			co, other := si.coefOf(l.K)
			if other || co.Cmp(bigOne) != 0 {
				return region{}, false
			}
			r.srcStor, r.srcStart, r.conv = inner.Stor, si.Sub(normInt(l.K)), n
			return r, true
		}
		if z, ok := normIntConst(v); ok && z == 0 {
			r.zero = true
			return r, true
		}
		return region{}, false
	case ECopy:
		if e.Dst == nil || e.Src == nil || e.Dst.Stor == nil {
			return region{}, false
		}
		r := region{stor: e.Dst.Stor, start: normInt(e.Dst.Off), count: normInt(canon(e.N)), eff: e}
		if e.Src.Stor != nil && e.Src.Stor.Kind == SFresh {
			r.zero = true
			return r, true
		}
		r.srcStor, r.srcStart = e.Src.Stor, normInt(e.Src.Off)
		return r, true
	case EClear:
		if e.Dst == nil || e.Dst.Stor == nil {
			return region{}, false
		}
		return region{stor: e.Dst.Stor, start: normInt(e.Dst.Off), count: normInt(e.N), zero: true, eff: e}, true
	}
	return region{}, false
}

func checkC03(c *Checker) {
	c.rule("C03-R1", "branch term: in place exactly when cap >= len(dst)+len(src) (same storage, len grows by len(src), no reallocation); otherwise append grows into new storage", 2)
	c.rule("C03-R2", "copy region: dst.data[len0(dst)+i] <- src.data[i], 0 <= i < len0(src); no other element store; the source is not written", 2)
	c.rule("C03-R3", "alias safety (self-append): no use of the source's len/cap after the destination header was replaced", 2)
	c.rule("C03-R4", "capacity: the only other header effect trims cap to c - c mod channels (never larger than c, and implied to be at least the new length)", 1)
	c.Assumptions = append(c.Assumptions, "Go specification: append beyond capacity allocates new storage and copies the prefix; reflect.Value.SetCap sets the capacity of the addressed slice",
		"sources overlapping the destination's spare capacity are excluded by the quantifier (other than the destination itself)",
		"frame alignment (quantifier): len(dst.data) and len(src.data) are multiples of the channel count; lemma used: for m >= 1, m | l and c >= l imply c - c mod m >= l")
	fn := c.anchor("C03-R1", "(*Buffer[D]).Append")
	if fn == nil {
		return
	}
	s := c.Summary(fn)
	if c.undecidedEffects("C03-R1", "Buffer.Append", s) {
		return
	}
	dst, src := buf{paramName(fn, 0)}, buf{paramName(fn, 1)}
	assume := channelsPositive(dst, src)
	guardNE := Cond{Kind: CNE0, P: normSign(normInt(dst.ch()).Sub(normInt(src.ch())))}
	for _, o := range panicPaths(s) {
		if !hasFact(o.St.facts, guardNE) {
			c.refuted("C03-R1", "Buffer.Append/panic-path", c.pos(o.Pos), "explicit panic path other than the channel guard: "+o.St.facts.String(), "")
		}
	}
	fits := Cond{Kind: CGE0, P: normInt(dst.capT()).Sub(normInt(dst.lenT())).Sub(normInt(src.lenT()))}
	newLen := normInt(dst.lenT()).Add(normInt(src.lenT()))
	fi := bufferFields(fn.Params[0].Type().Underlying().(*types.Pointer).Elem())
	if fi == nil {
		c.undecided("C03-R1", "Buffer.Append", c.pos(fn.Pos()), "cannot resolve Buffer fields")
		return
	}
	nIn, nGrow, nLemma := 0, 0, 0
	for _, o := range retPaths(s) {
		if !feasible(o, assume) {
			continue
		}
		// a path on which the capacity trim is skipped because it would cut into the length cannot be taken
		// by frame-aligned buffers (the quantifier): floor-to-a-multiple of a capacity that holds a whole
		// number of frames still holds them
		if why := alignedInfeasible(factsWith(o.St.facts, assume), dst, src); why != "" {
			nLemma++
			c.Extra["C03 path excluded by frame alignment"] = why
			continue
		}
		var which string
		switch o.St.facts.eval(fits) {
		case Yes:
			which = "in-place"
			nIn++
		case No:
			which = "grow"
			nGrow++
		default:
			c.refuted("C03-R1", "Buffer.Append/branch", c.pos(o.Pos), "a path is not decided by the test cap(dst) < len(dst)+len(src): "+o.St.facts.String(), "")
			continue
		}
		inst := "Buffer.Append/" + which
		// final header
		hdr, _ := o.St.mem[objByName(o, dst.obj())].(StructV)
		var data SliceV
		if len(hdr.F) >= 2 {
			data, _ = fi.at(hdr, fi.data).(SliceV)
		}
		grows := effectsOf(o, EGrow)
		var target *Storage
		okR1 := false
		makeForm := false
		detail := ""
		if which == "in-place" {
			okR1 = len(grows) == 0 && data.Stor != nil && data.Stor.Name == dst.stor() && eqInt(data.Off, zeroT()) && normInt(data.Len).Equal(newLen)
			target = data.Stor
			detail = fmt.Sprintf("final data %s, %d growing appends", valString(data), len(grows))
		} else if len(grows) == 0 && data.Stor != nil && data.Stor.Kind == SFresh {
			// the growth is spelled out: storage made in this call (any capacity policy: the property fixes only what
			// R2 and R4 check), the old contents copied into it, the header switched to it
			makeForm = true
			okR1 = eqInt(data.Off, zeroT()) && normInt(data.Len).Equal(newLen)
			target = data.Stor
			detail = fmt.Sprintf("final data %s on storage made in the call", valString(data))
		} else {
			okR1 = len(grows) == 1 && !grows[0].Stor.May && grows[0].Dst.Stor != nil && grows[0].Dst.Stor.Name == dst.stor() && eqInt(grows[0].Dst.Len, dst.lenT()) &&
				eqInt(grows[0].Dst.Off, zeroT()) && eqInt(grows[0].N, src.lenT()) && data.Stor == grows[0].Stor && normInt(data.Len).Equal(newLen)
			target = data.Stor
			detail = fmt.Sprintf("final data %s, %d growing appends", valString(data), len(grows))
		}
		c.expect(okR1, "C03-R1", inst, c.pos(o.Pos), "header: "+valString(data), "header/branch shape wrong on the "+which+" path: "+detail)
		// element writes
		var regs []region
		bad := 0
		var badDesc []*Effect
		effs := mods(o)
		if makeForm {
			// writes into the storage made in this call are not modifications of anything that existed, but here
			// they are the appended buffer
			in := map[*Effect]bool{}
			for _, e := range effs {
				in[e] = true
			}
			for _, e := range o.St.effects {
				if in[e] {
					continue
				}
				if (e.Kind == EStoreElem && e.Stor == target) || ((e.Kind == ECopy || e.Kind == EClear) && e.Dst != nil && e.Dst.Stor == target) {
					effs = append(effs, e)
				}
			}
		}
		okOld := !makeForm
		fa0 := factsWith(o.St.facts, assume)
		for _, e := range effs {
			switch e.Kind {
			case EStoreElem, ECopy, EClear:
				r, ok := regionOf(e)
				if !ok {
					bad++
					badDesc = append(badDesc, e)
					continue
				}
				regs = append(regs, r)
			case EStoreField, ESetCap:
				if e.Obj.Name != dst.obj() || !pathEq(e.Path, fi.data) {
					bad++
					badDesc = append(badDesc, e)
				}
			default:
				bad++
				badDesc = append(badDesc, e)
			}
		}
		okCopy := false
		// appended directly from the source: append(dst.data, src.data...)
		if which == "grow" && len(grows) == 1 && grows[0].Src.Stor != nil && grows[0].Src.Stor.Name == src.stor() && eqInt(grows[0].Src.Off, zeroT()) && grows[0].Src.Stale == "" {
			okCopy = true
		}
		for _, r := range regs {
			if makeForm && !okOld && r.stor == target && r.conv == 0 && !r.zero && r.start.IsZero() && r.srcStor != nil && r.srcStor.Name == dst.stor() && r.srcStart.IsZero() &&
				(r.count.Equal(normInt(dst.lenT())) || eqUnder(r.count.toTerm(), dst.lenT(), fa0)) {
				okOld = true // the old contents, copied to the front of the new storage
				continue
			}
			if r.stor == target && r.conv == 0 && r.start.Equal(normInt(dst.lenT())) && r.count.Equal(normInt(src.lenT())) && r.srcStor != nil && r.srcStor.Name == src.stor() && r.srcStart.IsZero() && !okCopy {
				okCopy = true
				continue
			}
			if r.stor == target && okCopy && r.zero && r.start.Equal(normInt(dst.lenT())) {
				continue // zero fill of the appended part before the copy
			}
			bad++
			badDesc = append(badDesc, r.eff)
		}
		c.expect(okCopy && okOld && bad == 0, "C03-R2", inst, c.pos(o.Pos), "data[len0(dst)+i] <- src.data[i], i < len0(src); nothing else written",
			fmt.Sprintf("copy region found: %v; old contents carried over: %v; %d unexpected effects: %s", okCopy, okOld, bad, describeEffects(badDesc)))
		hz := effectsOf(o, EHazard)
		if len(hz) == 0 {
			c.proved("C03-R3", inst, c.pos(o.Pos), "no use of the source header after the destination header store")
		} else {
			c.refuted("C03-R3", inst, c.effPos(hz[0]), fmt.Sprintf("%d uses of a possibly stale source header; first: %s", len(hz), hz[0].Note),
				"b.Append(b) on a non-empty buffer: the loop bound doubles after dst.data was replaced")
		}
		// capacity trim: judged on the final header, however the capacity was set (reflect SetCap or a
		// three-index slice expression)
		okCap := true
		capDetail := ""
		fa := factsWith(o.St.facts, assume)
		got := normInt(data.Cap)
		var base *Poly // capacity of the storage the data lives in
		if which == "in-place" {
			base = normInt(dst.capT())
		} else if len(grows) == 1 {
			base = normInt(&Term{Op: OpAtom, Name: "cap(" + grows[0].Stor.Name + ")", Typ: intT})
		}
		if makeForm && data.Cap != nil {
			// any growth policy: the final capacity must be a whole number of frames and hold the new length
			capDetail = "final capacity " + pretty(canon(data.Cap))
			nCases := 0
			for _, cs := range casesOf(canon(data.Cap), fa, 0) {
				// the case decides conditional terms inside the path's facts too (the capacity policy is one term)
				cf := simplifyFacts(cs.facts, cs.facts)
				if alignedInfeasible(cf, dst, src) != "" {
					continue
				}
				nCases++
				got = normInt(simplifyUnder(cs.val, cf))
				if !multipleOf(got, dst.ch(), cf) {
					okCap = false
					capDetail = "capacity " + pretty(cs.val) + " is not a whole number of frames under " + cf.String()
				} else if !cf.impliesGE0(got.Sub(newLen)) && floorMultipleGE0(cf, got.Sub(newLen), dst, src) == "" {
					okCap = false
					capDetail = "capacity " + pretty(cs.val) + " is not implied to be at least the new length " + newLen.String()
				}
			}
			if nCases == 0 {
				okCap, capDetail = false, "no feasible case for the final capacity"
			}
		} else if base == nil || data.Cap == nil {
			okCap, capDetail = false, "final capacity unresolved"
		} else {
			bt := base.toTerm()
			w1 := base.Sub(polyAtom(canon(&Term{Op: OpRem, Typ: intT, Args: []*Term{bt, dst.ch()}})))
			w2 := polyAtom(canon(&Term{Op: OpDiv, Typ: intT, Args: []*Term{bt, dst.ch()}})).Mul(normInt(dst.ch()))
			capDetail = "final capacity " + pretty(canon(data.Cap))
			// a capacity decided by a pure helper arrives as a conditional term: every feasible case is judged
			nCases := 0
			for _, cs := range casesOf(canon(data.Cap), fa, 0) {
				if alignedInfeasible(cs.facts, dst, src) != "" {
					continue // excluded by frame alignment, like the path of the D9 guard
				}
				nCases++
				got = normInt(cs.val)
				switch {
				case got.Equal(w1) || got.Equal(w2):
					if !cs.facts.impliesGE0(got.Sub(newLen)) && floorMultipleGE0(cs.facts, got.Sub(newLen), dst, src) == "" {
						okCap = false
						capDetail += " is not implied to be at least the new length " + newLen.String()
					}
				case got.Equal(base) && cs.facts.eval(Cond{Kind: CEQ0, P: normSign(base.Sub(w1))}) == Yes:
					// untouched because it is already a whole number of frames on this path
					if !cs.facts.impliesGE0(got.Sub(newLen)) {
						okCap = false
						capDetail += " is not implied to be at least the new length " + newLen.String()
					}
				case got.Equal(base):
					okCap = false
					capDetail = "capacity " + pretty(cs.val) + " is not trimmed to a whole number of frames"
				default:
					okCap = false
					capDetail += " is not cap - cap mod channels of the storage capacity " + base.String()
				}
			}
			if nCases == 0 {
				okCap, capDetail = false, "no feasible case for the final capacity"
			}
		}
		c.expect(okCap, "C03-R4", inst, c.pos(o.Pos), capDetail, "capacity is not a whole number of frames covering the length: "+capDetail)
	}
	c.Extra["C03 paths excluded by the frame-alignment lemma"] = nLemma
	if nIn == 0 {
		c.refuted("C03-R1", "Buffer.Append/in-place", c.pos(fn.Pos()), "no path appends in place when the capacity suffices", "")
	}
	if nGrow == 0 {
		c.refuted("C03-R1", "Buffer.Append/grow", c.pos(fn.Pos()), "no path grows when the capacity does not suffice", "")
	}
}

func objByName(o Outcome, name string) *Object {
	for ob := range o.St.mem {
		if ob.Name == name {
			return ob
		}
	}
	return nil
}

// alignedInfeasible: the path carries a fact  c - c mod m < l  (equivalently m*(c/m) < l) although c >= l holds
// on the path, m >= 1, and l is a multiple of m once the buffer lengths are written as whole frames. Returns a
// description of the contradicted fact, or "".
func alignedInfeasible(f *Facts, bs ...buf) string {
	for _, fc := range f.list {
		if fc.Kind != CGE0 || fc.P == nil {
			continue
		}
		// the path says q < 0; the lemma may prove q >= 0
		if why := floorMultipleGE0(f, fc.P.Neg().AddInt(-1), bs...); why != "" {
			return fc.String() + " contradicts " + why
		}
	}
	return ""
}

// floorMultipleGE0 proves q >= 0 for q = floor-to-multiple(a, m) - l, where m >= 1 and a >= l hold under f and
// l is a multiple of m once the lengths of the buffers with m channels are written as whole frames.
func floorMultipleGE0(f *Facts, q *Poly, bs ...buf) string {
	{
		for _, mo := range q.m {
			var a, m *Poly
			var mt *Term
			switch {
			case len(mo.factors) == 1 && mo.factors[0].Op == OpRem && mo.coef.Cmp(big.NewInt(-1)) == 0:
				t := mo.factors[0]
				a, m, mt = normInt(t.Args[0]), normInt(t.Args[1]), t.Args[1]
			case len(mo.factors) == 2 && mo.coef.Cmp(big.NewInt(1)) == 0:
				for i, t := range mo.factors {
					if t.Op == OpDiv && canon(t.Args[1]).Key() == canon(mo.factors[1-i]).Key() {
						a, m, mt = normInt(t.Args[0]), normInt(t.Args[1]), t.Args[1]
					}
				}
			}
			if a == nil {
				continue
			}
			// q = floorMultiple(a, m) - l
			var l *Poly
			if len(mo.factors) == 1 {
				l = a.Sub(polyAtom(mo.factors[0])).Sub(q)
			} else {
				mono := newPoly()
				mono.addMonom(factorsKey(mo.factors), mo.coef, mo.factors)
				l = mono.Sub(q)
			}
			if !f.impliesGE0(m.AddInt(-1)) || !f.impliesGE0(a.Sub(l)) {
				continue
			}
			// l is a multiple of m under frame alignment (buffers whose channel count equals m on this path)
			frames := map[string]*Term{}
			for _, b := range bs {
				if f.eval(Cond{Kind: CEQ0, P: normSign(normInt(b.ch()).Sub(m))}) == Yes {
					frames[b.lenT().Name] = &Term{Op: OpMul, Typ: intT, Args: []*Term{mt, mkAtom("frames("+b.name+")", intT)}}
				}
			}
			lt := normInt(l.toTerm().subst(frames))
			mult := true
			for _, lm := range lt.m {
				has := false
				for _, fac := range lm.factors {
					if canon(fac).Key() == canon(mt).Key() {
						has = true
					}
				}
				mult = mult && has
			}
			if mult {
				return fmt.Sprintf("floor-to-multiple(%s, %s) >= %s", a.String(), m.String(), l.String())
			}
		}
	}
	return ""
}

func factsWith(f, g *Facts) *Facts {
	out := f.clone()
	if g != nil {
		for _, c := range g.list {
			out.add(c)
		}
	}
	return out
}

type termCase struct {
	val   *Term
	facts *Facts
}

// casesOf splits a conditional term into its cases, each with the condition added to the facts; cases whose
// condition contradicts the facts are dropped.
func casesOf(t *Term, f *Facts, depth int) []termCase {
	if t.Op != OpIte || depth > 6 {
		return []termCase{{t, f}}
	}
	c := condOf(t.Args[0], false)
	var out []termCase
	if f.eval(c) != No {
		g := f.clone()
		g.add(c)
		out = append(out, casesOf(t.Args[1], g, depth+1)...)
	}
	if f.eval(c) != Yes {
		g := f.clone()
		g.add(c.Not())
		out = append(out, casesOf(t.Args[2], g, depth+1)...)
	}
	return out
}

// normalizeRegions merges the strided stores of an unrolled loop into one contiguous region (all residues 0..s-1
// present, same loop, same kind) and then joins regions that are adjacent in the destination (and, for copies, in
// the source). Regions it cannot simplify are returned unchanged.
func normalizeRegions(regs []region, f *Facts) []region {
	var out []region
	used := make([]bool, len(regs))
	for i, a := range regs {
		if used[i] || a.stride <= 1 {
			continue
		}
		group := []int{i}
		for j := i + 1; j < len(regs); j++ {
			b := regs[j]
			if !used[j] && b.stride == a.stride && b.loop == a.loop && b.stor == a.stor && b.zero == a.zero && b.srcStor == a.srcStor && b.conv == a.conv {
				group = append(group, j)
			}
		}
		if int64(len(group)) != a.stride {
			continue
		}
		// the smallest start is the base; the others must be base+1 .. base+s-1 (and likewise in the source)
		base := a
		for _, j := range group {
			if d, ok := regs[j].start.Sub(base.start).IsConst(); ok && d.Sign() < 0 {
				base = regs[j]
			}
		}
		seen := map[int64]bool{}
		okG := true
		for _, j := range group {
			d, ok := regs[j].start.Sub(base.start).IsConst()
			if !ok || !d.IsInt64() || d.Int64() < 0 || d.Int64() >= a.stride || seen[d.Int64()] {
				okG = false
				break
			}
			if base.srcStor != nil {
				sd, ok2 := regs[j].srcStart.Sub(base.srcStart).IsConst()
				if !ok2 || sd.Cmp(d) != 0 {
					okG = false
					break
				}
			}
			seen[d.Int64()] = true
		}
		if !okG {
			continue
		}
		for _, j := range group {
			used[j] = true
		}
		m := base
		m.stride, m.loop = 0, nil
		m.count = base.count.Scale(big.NewInt(a.stride))
		out = append(out, m)
	}
	for i, a := range regs {
		if !used[i] {
			out = append(out, a)
		}
	}
	// join adjacent regions
	eq := func(p, q *Poly) bool {
		if p.Equal(q) {
			return true
		}
		return f != nil && eqUnder(p.toTerm(), q.toTerm(), f)
	}
	for changed := true; changed; {
		changed = false
	outer:
		for i := range out {
			for j := range out {
				a, b := out[i], out[j]
				if i == j || a.stride > 1 || b.stride > 1 || a.stor != b.stor || a.zero != b.zero || a.srcStor != b.srcStor || a.conv != b.conv {
					continue
				}
				if !eq(b.start, a.start.Add(a.count)) {
					continue
				}
				if a.srcStor != nil && !eq(b.srcStart, a.srcStart.Add(a.count)) {
					continue
				}
				a.count = a.count.Add(b.count)
				out[i] = a
				out = append(out[:j], out[j+1:]...)
				changed = true
				break outer
			}
		}
	}
	return out
}

// multipleOf: p is a multiple of m, shown structurally: p = k*(A - A mod m) + rest (or k*m*(A/m) + rest) with rest a
// multiple of m again; a monomial with the factor m is a multiple; a polynomial the facts say leaves no remainder.
func multipleOf(p *Poly, m *Term, f *Facts) bool {
	mk := canon(m).Key()
	if p.IsZero() {
		return true
	}
	// the facts say p mod m == 0
	for _, fc := range f.list {
		if fc.Kind != CEQ0 || fc.P == nil || len(fc.P.m) != 1 {
			continue
		}
		for _, mo := range fc.P.m {
			if len(mo.factors) == 1 && mo.factors[0].Op == OpRem && canon(mo.factors[0].Args[1]).Key() == mk && normInt(mo.factors[0].Args[0]).Equal(p) {
				return true
			}
		}
	}
	for _, mo := range p.m {
		if len(mo.factors) == 1 && mo.factors[0].Op == OpRem && canon(mo.factors[0].Args[1]).Key() == mk {
			// p = -coef*(A - A mod m) + rest
			r := mo.factors[0]
			k := new(big.Int).Neg(mo.coef)
			rest := p.Add(polyAtom(r).Scale(k)).Sub(normInt(r.Args[0]).Scale(k))
			if len(rest.m) < len(p.m) || !rest.mentions(func(x *Term) bool { return x.Key() == r.Key() }) {
				return multipleOf(rest, m, f)
			}
		}
	}
	for _, mo := range p.m {
		has := false
		for _, fac := range mo.factors {
			if canon(fac).Key() == mk {
				has = true
			}
		}
		if !has {
			return false
		}
	}
	return true
}
