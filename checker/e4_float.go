package main

// E4, float side. Two analyses:
//  - fixed -> float kernels (C09): the value is a chain  fl(...fl(conv(a·x+b) ± c) / K ...)
//    of monotone steps over one integer sample x; end points are evaluated by
//    constant folding of the kernel term (IEEE arithmetic of the host, which is
//    the arithmetic the Go specification prescribes for float32/float64).
//  - float -> fixed kernels (C08): interval analysis over the float sample f
//    with strict/non-strict bounds; every float->int conversion is an
//    obligation (out-of-range conversion is implementation-defined).

import (
	"fmt"
	"go/token"
	"math"
	"math/big"
)

// substSample replaces the sample load(s) by a constant and refolds the term.
func substSample(t *Term, isSample func(*Term) bool, repl *Term) *Term {
	if isSample(t) {
		return repl
	}
	if len(t.Args) == 0 {
		return t
	}
	args := make([]*Term, len(t.Args))
	ch := false
	for i, a := range t.Args {
		args[i] = substSample(a, isSample, repl)
		if args[i] != a {
			ch = true
		}
	}
	if !ch {
		return t
	}
	return rebuild(t, args)
}

// pointEval folds the kernel value at one concrete sample.
func pointEval(t *Term, isSample func(*Term) bool, x *Term) (*Term, bool) {
	r := substSample(t, isSample, x)
	return r, r.IsConst()
}

// ---------- C09: chains over an integer sample ----------

type chainStep struct {
	op   string // "conv-int", "conv-float", "add", "sub", "mul", "div"
	c    float64
	bits int
}

type fchain struct {
	inner  Form // integer form inside the int->float conversion
	innerK numKind
	steps  []chainStep
}

// floatChain decomposes a float-typed kernel value over the integer sample.
func floatChain(t *Term, ev *intEval) (*fchain, error) {
	k := kindOf(t.Typ)
	if !k.Float {
		return nil, e4fail("kernel value %s is not floating point", pretty(t))
	}
	switch t.Op {
	case OpConv:
		in := t.Args[0]
		ik := kindOf(in.Typ)
		if ik.OK && !ik.Float {
			iv, err := ev.eval(in)
			if err != nil {
				return nil, err
			}
			if !iv.exact() {
				return nil, e4fail("integer operand of the float conversion may have wrapped: %s", pretty(in))
			}
			return &fchain{inner: iv.f, innerK: ik, steps: []chainStep{{op: "conv-int", bits: k.Bits}}}, nil
		}
		if ik.Float {
			ch, err := floatChain(in, ev)
			if err != nil {
				return nil, err
			}
			ch.steps = append(ch.steps, chainStep{op: "conv-float", bits: k.Bits})
			return ch, nil
		}
	case OpAdd, OpSub, OpMul, OpDiv:
		a, b := t.Args[0], t.Args[1]
		cb, okb := constFloat(b)
		if !(okb && b.IsConst()) {
			return nil, e4fail("second operand of %s is not a constant: %s", opNames[t.Op], pretty(t))
		}
		ch, err := floatChain(a, ev)
		if err != nil {
			return nil, err
		}
		ch.steps = append(ch.steps, chainStep{op: map[Op]string{OpAdd: "add", OpSub: "sub", OpMul: "mul", OpDiv: "div"}[t.Op], c: cb, bits: k.Bits})
		return ch, nil
	}
	return nil, e4fail("kernel value is not a chain of monotone float steps over the sample: %s", pretty(t))
}

func (ch *fchain) monotoneUp() (bool, string) {
	for _, s := range ch.steps {
		if (s.op == "mul" || s.op == "div") && !(s.c > 0) {
			return false, fmt.Sprintf("%s by the non-positive constant %v", s.op, s.c)
		}
		if math.IsNaN(s.c) || math.IsInf(s.c, 0) {
			return false, "non-finite constant"
		}
	}
	return true, ""
}

// divisor returns the constant the amplitude is divided by (or the reciprocal of the multiplier).
func (ch *fchain) divisor() (float64, string, bool) {
	n := 0
	var k float64
	op := ""
	for _, s := range ch.steps {
		switch s.op {
		case "div":
			n++
			k, op = s.c, "div"
		case "mul":
			n++
			k, op = 1/s.c, "mul"
		}
	}
	return k, op, n == 1
}

// ---------- C08: interval analysis over a float sample ----------

type fbound struct {
	v      float64
	strict bool
}

type fpiece struct{ lo, hi fbound } // lo <(=) f <(=) hi; NaN excluded

func fullFPiece() fpiece {
	return fpiece{fbound{math.Inf(-1), false}, fbound{math.Inf(1), false}}
}

func (p fpiece) empty() bool {
	if p.lo.v > p.hi.v {
		return true
	}
	return p.lo.v == p.hi.v && (p.lo.strict || p.hi.strict)
}

func (p fpiece) String() string {
	l, r := "[", "]"
	if p.lo.strict {
		l = "("
	}
	if p.hi.strict {
		r = ")"
	}
	return fmt.Sprintf("%s%v, %v%s", l, p.lo.v, p.hi.v, r)
}

func (p *fpiece) meetLo(b fbound) {
	if b.v > p.lo.v || (b.v == p.lo.v && b.strict) {
		p.lo = b
	}
}
func (p *fpiece) meetHi(b fbound) {
	if b.v < p.hi.v || (b.v == p.hi.v && b.strict) {
		p.hi = b
	}
}

// FV is an abstract float (or, after a conversion, integer) value over a float sample.
type FV struct {
	isInt    bool
	k        numKind
	lo, hi   fbound   // float interval
	ilo, ihi *big.Int // integer interval
	dir      int      // +1 non-decreasing in f, -1 non-increasing, 0 constant
	mult     float64  // the constant the sample was multiplied by (0: none)
	desc     string
	// real-arithmetic reading of the value: slope·f + icpt, and a bound on the
	// accumulated floating-point rounding error |computed - real| before truncation
	slope, icpt, err *big.Rat
}

func rat0() *big.Rat { return new(big.Rat) }

func ratF(f float64) *big.Rat {
	if math.IsInf(f, 0) || math.IsNaN(f) {
		return nil
	}
	return new(big.Rat).SetFloat64(f)
}

// maxAbs returns the largest magnitude of the float interval (nil if unbounded).
func (v FV) maxAbs() *big.Rat {
	a, b := ratF(v.lo.v), ratF(v.hi.v)
	if a == nil || b == nil {
		return nil
	}
	a.Abs(a)
	b.Abs(b)
	if a.Cmp(b) > 0 {
		return a
	}
	return b
}

var unitRoundoff64 = new(big.Rat).SetFrac(big.NewInt(1), new(big.Int).Lsh(big.NewInt(1), 53))
var unitRoundoff32 = new(big.Rat).SetFrac(big.NewInt(1), new(big.Int).Lsh(big.NewInt(1), 24))

// addRounding adds the rounding error of one operation whose result is r (nil err = unknown).
func addRounding(err *big.Rat, r FV, bits int) *big.Rat {
	if err == nil {
		return nil
	}
	m := r.maxAbs()
	if m == nil {
		return nil
	}
	u := unitRoundoff64
	if bits == 32 {
		u = unitRoundoff32
	}
	return new(big.Rat).Add(err, new(big.Rat).Mul(m, u))
}

type convSite struct {
	pos     token.Pos
	ok      bool
	detail  string
	witness string
}

type floatEval struct {
	pc       fpiece
	isSample func(*Term) bool
	sites    []convSite
}

func isP2(c float64) bool {
	if c <= 0 || math.IsInf(c, 0) {
		return false
	}
	fr, _ := math.Frexp(c)
	return fr == 0.5
}

func ratOf(f float64) *big.Rat {
	r, _ := new(big.Rat).SetString(big.NewFloat(f).Text('f', -1))
	if r == nil {
		r = new(big.Rat).SetFloat64(f)
	}
	return new(big.Rat).SetFloat64(f)
}

// eval abstracts a kernel sub-term over the current float piece.
func (ev *floatEval) eval(t *Term) (FV, error) {
	k := kindOf(t.Typ)
	if ev.isSample(t) {
		if !k.Float {
			return FV{}, e4fail("sample is not floating point")
		}
		return FV{k: k, lo: ev.pc.lo, hi: ev.pc.hi, dir: 1, desc: "f", slope: big.NewRat(1, 1), icpt: rat0(), err: rat0()}, nil
	}
	switch t.Op {
	case OpConst:
		if k.Float {
			f, ok := constFloat(t)
			if !ok {
				return FV{}, e4fail("bad float constant %s", pretty(t))
			}
			return FV{k: k, lo: fbound{f, false}, hi: fbound{f, false}, dir: 0, desc: fmt.Sprint(f), slope: rat0(), icpt: ratF(f), err: rat0()}, nil
		}
		if k.OK {
			c, ok := bigOf(t.C)
			if !ok {
				return FV{}, e4fail("bad constant %s", pretty(t))
			}
			return FV{isInt: true, k: k, ilo: c, ihi: c, dir: 0, desc: c.String(), slope: rat0(), icpt: new(big.Rat).SetInt(c), err: rat0()}, nil
		}
	case OpConv:
		a, err := ev.eval(t.Args[0])
		if err != nil {
			return FV{}, err
		}
		switch {
		case !a.isInt && k.Float:
			fk := kindOf(t.Args[0].Typ)
			if k.Bits >= fk.Bits {
				a.k = k
				return a, nil // widening is exact
			}
			// narrowing rounds monotonically; strict bounds become non-strict
			a.k = k
			a.lo = fbound{float64(float32(a.lo.v)), false}
			a.hi = fbound{float64(float32(a.hi.v)), false}
			a.err = addRounding(a.err, a, 32)
			return a, nil
		case !a.isInt && k.OK && !k.Float:
			return ev.toInt(a, k, t)
		case a.isInt && k.OK && !k.Float:
			mn, mx := k.minMax()
			if a.ilo.Cmp(mn) < 0 || a.ihi.Cmp(mx) > 0 {
				return FV{}, e4fail("integer conversion of a value in [%s,%s] to %d-bit %s wraps: %s", a.ilo, a.ihi, k.Bits, signName(k), pretty(t))
			}
			a.k = k
			return a, nil
		case a.isInt && k.Float:
			// integer constant to float (e.g. float64(msv)): must be constant
			if a.dir != 0 || a.ilo.Cmp(a.ihi) != 0 {
				return FV{}, e4fail("conversion of a sample-dependent integer back to float: %s", pretty(t))
			}
			f, _ := new(big.Float).SetInt(a.ilo).Float64()
			if k.Bits == 32 {
				f = float64(float32(f))
			}
			return FV{k: k, lo: fbound{f, false}, hi: fbound{f, false}, desc: fmt.Sprint(f), slope: rat0(), icpt: ratF(f), err: rat0()}, nil
		}
	case OpNeg:
		a, err := ev.eval(t.Args[0])
		if err != nil {
			return FV{}, err
		}
		if a.isInt {
			return FV{}, e4fail("integer negation in a float kernel: %s", pretty(t))
		}
		r := FV{k: k, lo: fbound{-a.hi.v, a.hi.strict}, hi: fbound{-a.lo.v, a.lo.strict}, dir: -a.dir, mult: -a.mult, desc: "-(" + a.desc + ")", err: a.err}
		if a.slope != nil && a.icpt != nil {
			r.slope, r.icpt = new(big.Rat).Neg(a.slope), new(big.Rat).Neg(a.icpt)
		}
		return r, nil
	case OpMul:
		a, err := ev.eval(t.Args[0])
		if err != nil {
			return FV{}, err
		}
		b, err := ev.eval(t.Args[1])
		if err != nil {
			return FV{}, err
		}
		if a.isInt || b.isInt {
			return FV{}, e4fail("integer multiplication in a float kernel: %s", pretty(t))
		}
		if a.dir == 0 && b.dir != 0 {
			a, b = b, a
		}
		if b.dir != 0 || b.lo.v != b.hi.v {
			return FV{}, e4fail("product of two sample-dependent values: %s", pretty(t))
		}
		c := b.lo.v
		if !(c > 0) || math.IsInf(c, 0) {
			return FV{}, e4fail("multiplication by the non-positive or non-finite constant %v: %s", c, pretty(t))
		}
		mul := func(x fbound) fbound {
			v := x.v * c
			if k.Bits == 32 {
				v = float64(float32(v))
			}
			// exact (power of two, no overflow/underflow): strictness survives
			st := x.strict && isP2(c) && !math.IsInf(v, 0) && v/c == x.v
			return fbound{v, st}
		}
		r := FV{k: k, lo: mul(a.lo), hi: mul(a.hi), dir: a.dir, desc: fmt.Sprintf("(%s)*%v", a.desc, c)}
		if a.mult == 0 {
			r.mult = c
		} else {
			r.mult = a.mult * c
		}
		if a.slope != nil && a.icpt != nil {
			cr := ratF(c)
			r.slope, r.icpt = new(big.Rat).Mul(a.slope, cr), new(big.Rat).Mul(a.icpt, cr)
		}
		if a.err != nil {
			r.err = new(big.Rat).Mul(a.err, ratF(c))
			if !isP2(c) {
				r.err = addRounding(r.err, r, k.Bits)
			}
		}
		return r, nil
	case OpAdd, OpSub:
		a, err := ev.eval(t.Args[0])
		if err != nil {
			return FV{}, err
		}
		b, err := ev.eval(t.Args[1])
		if err != nil {
			return FV{}, err
		}
		if a.isInt != b.isInt {
			return FV{}, e4fail("mixed operands in %s", pretty(t))
		}
		if a.isInt {
			mn, mx := k.minMax()
			var lo, hi *big.Int
			dir := 0
			if t.Op == OpAdd {
				lo, hi = new(big.Int).Add(a.ilo, b.ilo), new(big.Int).Add(a.ihi, b.ihi)
				switch {
				case a.dir == 0:
					dir = b.dir
				case b.dir == 0 || b.dir == a.dir:
					dir = a.dir
				default:
					return FV{}, e4fail("sum of an increasing and a decreasing value: %s", pretty(t))
				}
			} else {
				lo, hi = new(big.Int).Sub(a.ilo, b.ihi), new(big.Int).Sub(a.ihi, b.ilo)
				switch {
				case b.dir == 0:
					dir = a.dir
				case a.dir == 0 || a.dir == -b.dir:
					dir = -b.dir
				default:
					return FV{}, e4fail("difference of two values of the same direction: %s", pretty(t))
				}
			}
			if lo.Cmp(mn) < 0 || hi.Cmp(mx) > 0 {
				return FV{}, e4fail("integer arithmetic leaves the range of the %d-bit %s type ([%s,%s]): %s", k.Bits, signName(k), lo, hi, pretty(t))
			}
			r := FV{isInt: true, k: k, ilo: lo, ihi: hi, dir: dir, mult: a.mult + b.mult, desc: fmt.Sprintf("(%s)%s(%s)", a.desc, opNames[t.Op], b.desc)}
			if a.slope != nil && b.slope != nil && a.icpt != nil && b.icpt != nil && a.err != nil && b.err != nil {
				if t.Op == OpAdd {
					r.slope, r.icpt = new(big.Rat).Add(a.slope, b.slope), new(big.Rat).Add(a.icpt, b.icpt)
				} else {
					r.slope, r.icpt = new(big.Rat).Sub(a.slope, b.slope), new(big.Rat).Sub(a.icpt, b.icpt)
				}
				r.err = new(big.Rat).Add(a.err, b.err)
			}
			return r, nil
		}
		// float add/sub of a constant
		if b.dir != 0 || b.lo.v != b.hi.v {
			return FV{}, e4fail("float sum of two sample-dependent values: %s", pretty(t))
		}
		c := b.lo.v
		if t.Op == OpSub {
			c = -c
		}
		sh := func(x fbound) fbound { return fbound{x.v + c, false} }
		r := FV{k: k, lo: sh(a.lo), hi: sh(a.hi), dir: a.dir, mult: a.mult, desc: fmt.Sprintf("(%s)+%v", a.desc, c)}
		if a.slope != nil && a.icpt != nil {
			r.slope, r.icpt = a.slope, new(big.Rat).Add(a.icpt, ratF(c))
		}
		r.err = addRounding(a.err, r, k.Bits)
		return r, nil
	case OpIte:
		return FV{}, e4fail("conditional value inside the kernel: %s", pretty(t))
	case OpCall:
		// rounding to the nearest integer before the conversion (instead of the conversion's truncation): monotone,
		// integer-valued, at most half a step from its argument; the affine reading and the accumulated error of
		// the argument are kept, the ends of the interval are rounded (closed: a safe over-approximation)
		if (t.Name == "math.Round" || t.Name == "math.RoundToEven") && len(t.Args) == 1 {
			a, err := ev.eval(t.Args[0])
			if err != nil || a.isInt {
				return a, err
			}
			rd := math.Round
			if t.Name == "math.RoundToEven" {
				rd = math.RoundToEven
			}
			r := a
			rb := func(b fbound) fbound {
				if math.Abs(b.v) >= 1<<53 || math.IsInf(b.v, 0) {
					return b // every float64 of this magnitude is an integer: rounding is the identity
				}
				return fbound{rd(b.v), false}
			}
			r.lo, r.hi = rb(a.lo), rb(a.hi)
			r.desc = fmt.Sprintf("round(%s)", a.desc)
			return r, nil
		}
	}
	return FV{}, e4fail("operation %s outside the float kernel language: %s", opNames[t.Op], pretty(t))
}

// toInt is the float -> integer conversion obligation (F1).
func (ev *floatEval) toInt(a FV, k numKind, t *Term) (FV, error) {
	mn, mx := k.minMax()
	lim := func(b *big.Int) *big.Rat { return new(big.Rat).SetInt(b) }
	upper := new(big.Rat).Add(lim(mx), big.NewRat(1, 1)) // value must be < max+1
	lower := new(big.Rat).Sub(lim(mn), big.NewRat(1, 1)) // value must be > min-1
	site := convSite{pos: t.Pos, ok: true}
	bad := func(msg, wit string) {
		site.ok = false
		site.detail = msg
		site.witness = wit
	}
	if math.IsInf(a.hi.v, 1) || math.IsNaN(a.hi.v) {
		bad(fmt.Sprintf("operand %s of the conversion to %d-bit %s is unbounded above on %s", a.desc, k.Bits, signName(k), ev.pc), "f = +Inf or any f far above 1")
	} else {
		h := new(big.Rat).SetFloat64(a.hi.v)
		if c := h.Cmp(upper); c > 0 || (c == 0 && !a.hi.strict) {
			bad(fmt.Sprintf("operand %s can reach %v, beyond the %d-bit %s range, on %s", a.desc, a.hi.v, k.Bits, signName(k), ev.pc), fmt.Sprintf("f = %v", ev.pc.hi.v))
		}
	}
	if math.IsInf(a.lo.v, -1) || math.IsNaN(a.lo.v) {
		bad(fmt.Sprintf("operand %s of the conversion to %d-bit %s is unbounded below on %s", a.desc, k.Bits, signName(k), ev.pc), "f = -Inf or any f far below -1")
	} else if site.ok {
		l := new(big.Rat).SetFloat64(a.lo.v)
		if c := l.Cmp(lower); c < 0 || (c == 0 && !a.lo.strict) {
			bad(fmt.Sprintf("operand %s can reach %v, below the %d-bit %s range, on %s", a.desc, a.lo.v, k.Bits, signName(k), ev.pc), fmt.Sprintf("f = %v", ev.pc.lo.v))
		}
	}
	ev.sites = append(ev.sites, site)
	if !site.ok {
		return FV{}, e4fail("F1: %s", site.detail)
	}
	tr := func(b fbound, upperEnd bool) *big.Int {
		bf := new(big.Float).SetFloat64(b.v)
		i, _ := bf.Int(nil) // truncation toward zero
		if b.strict && bf.IsInt() {
			// open integral bound: the nearest attainable value truncates one step inside when moving away from zero is excluded
			if upperEnd && b.v > 0 {
				i.Sub(i, big.NewInt(1))
			}
			if !upperEnd && b.v < 0 {
				i.Add(i, big.NewInt(1))
			}
		}
		return i
	}
	lo, hi := tr(a.lo, false), tr(a.hi, true)
	if a.dir < 0 {
		// interval ends are still lo<=hi
	}
	return FV{isInt: true, k: k, ilo: lo, ihi: hi, dir: a.dir, mult: a.mult, desc: fmt.Sprintf("trunc(%s)", a.desc), slope: a.slope, icpt: a.icpt, err: a.err}, nil
}

// splitF narrows the float piece by a condition f ⋈ const; ok=false when the condition is not of that form.
func (ev *floatEval) splitF(t *Term, neg bool) (bool, error) {
	if t.Op == OpLNot {
		return ev.splitF(t.Args[0], !neg)
	}
	isF := func(x *Term) bool {
		for x.Op == OpConv && kindOf(x.Typ).Float && kindOf(x.Args[0].Typ).Float && kindOf(x.Typ).Bits >= kindOf(x.Args[0].Typ).Bits {
			x = x.Args[0]
		}
		return ev.isSample(x)
	}
	// math.IsNaN(f), or its spelling f != f: NaN is excluded by the property, so the test is false on the whole piece
	nanTest := (t.Op == OpCall && t.Name == "math.IsNaN" && len(t.Args) == 1 && isF(t.Args[0])) ||
		(t.Op == OpCmp && t.Tok == token.NEQ && isF(t.Args[0]) && isF(t.Args[1]))
	notNanTest := t.Op == OpCmp && t.Tok == token.EQL && isF(t.Args[0]) && isF(t.Args[1])
	if nanTest || notNanTest {
		if nanTest != neg {
			// the NaN side: no input of the domain takes it
			ev.pc.meetLo(fbound{math.Inf(1), true})
		}
		return true, nil
	}
	if t.Op != OpCmp {
		return false, nil
	}
	a, b := t.Args[0], t.Args[1]
	tok := t.Tok
	if !isF(a) {
		if !isF(b) {
			return false, nil
		}
		a, b = b, a
		tok = map[token.Token]token.Token{token.LSS: token.GTR, token.LEQ: token.GEQ, token.GTR: token.LSS, token.GEQ: token.LEQ, token.EQL: token.EQL, token.NEQ: token.NEQ}[tok]
	}
	c, ok := constFloat(b)
	if !ok || !b.IsConst() || math.IsNaN(c) {
		return false, nil
	}
	if neg {
		// NaN is excluded by the property, so the negation of an ordering is the complementary ordering
		tok = map[token.Token]token.Token{token.LSS: token.GEQ, token.LEQ: token.GTR, token.GTR: token.LEQ, token.GEQ: token.LSS, token.EQL: token.NEQ, token.NEQ: token.EQL}[tok]
	}
	switch tok {
	case token.LSS:
		ev.pc.meetHi(fbound{c, true})
	case token.LEQ:
		ev.pc.meetHi(fbound{c, false})
	case token.GTR:
		ev.pc.meetLo(fbound{c, true})
	case token.GEQ:
		ev.pc.meetLo(fbound{c, false})
	case token.EQL:
		ev.pc.meetLo(fbound{c, false})
		ev.pc.meetHi(fbound{c, false})
	default:
		return false, nil
	}
	return true, nil
}
