package main

import (
	"fmt"
	"math"
	"math/big"
	"sort"
	"strings"
)

// roundTo rounds a float64 to the precision of the float kind.
func roundTo(f float64, k numKind) float64 {
	if k.Bits == 32 {
		return float64(float32(f))
	}
	return f
}

func bigToFloat(b *big.Int, k numKind) float64 {
	f, _ := new(big.Float).SetInt(b).Float64()
	if k.Bits == 32 {
		f32, _ := new(big.Float).SetInt(b).Float32()
		return float64(f32)
	}
	return f
}

// ---------------- C09 ----------------

type f9piece struct {
	pc piece
	ch *fchain
	kp kernelPiece
}

func checkC09(c *Checker) {
	depthInvariant(c, "C09-D0")
	c.rule("C09-G0", "shape: the kernel value is a chain of monotone float steps over the sample on every piece and the pieces partition the code range", 22)
	c.rule("C09-G1", "range and reference levels: images of the lowest / zero-amplitude / highest code are exactly -1 / 0 / 1 (monotone pieces keep everything else inside [-1,1])", 22)
	c.rule("C09-G2", "order: pieces monotone non-decreasing, images ordered at every piece boundary", 22)
	c.rule("C09-G3", "injectivity (depth <= 32 into float64): exact operands, one rounding, spacing 1/K >> ulp inside a piece; strictly ordered images at every piece boundary", 6)
	c.rule("C09-G4", "accuracy: the divisor of every piece is the full scale 2^(d-1) or 2^(d-1)-1 (rounded to the destination precision)", 22)
	c.rule("C09-G5", "table agreement with the inverse direction: pieces of positive amplitude divide by 2^(d-1)-1, pieces of non-positive amplitude by 2^(d-1); no piece mixes both signs", 22)
	c.rule("C09-G6", "round trip within one step: accumulated rounding |A|max * ops * u < 1 for depth <= 32 via float64 and depth <= 16 via float32", 8)
	c.NotDecided = append(c.NotDecided, "that the float64 round trip at depth <= 32 is exact (a fact about double rounding no interval/form argument settles); G5 (matching full-scale tables) is the necessary structural condition that is decided",
		"the one-step accuracy bound follows from G4 by a lemma that is not mechanised")
	c.Trusted = append(c.Trusted, "IEEE-754 round-to-nearest arithmetic of the host for constant folding of float32/float64 kernels (the arithmetic the Go specification prescribes)")
	type pr struct{ s, d string }
	var prs []pr
	for _, sn := range intTypeNames() {
		for _, dn := range floatTypes {
			prs = append(prs, pr{sn, dn})
		}
	}
	for _, sn := range append(namedSigned()[:2], namedUnsigned()[:2]...) {
		for _, dn := range namedFloats() {
			prs = append(prs, pr{sn, dn})
		}
	}
	for _, q := range prs {
		{
			sn, dn := q.s, q.d
			ks, kd := kindOf(c.typeByName(sn)), kindOf(c.typeByName(dn))
			name := "UnsignedAsFloat"
			if ks.Signed {
				name = "SignedAsFloat"
			}
			inst := fmt.Sprintf("%s[%s,%s]", name, sn, dn)
			fn := c.instFn(name, sn, dn)
			if fn == nil {
				c.undecided("C09-G0", inst, "", "instantiation not found")
				continue
			}
			p := c.pos(fn.Pos())
			ds, ok1 := c.depthOf(sn)
			dd, ok2 := c.depthOf(dn)
			if !ok1 || !ok2 {
				c.undecided("C09-G0", inst, p, "bit depth does not evaluate to a constant")
				continue
			}
			k, err := c.extractKernel(fn, ds, dd)
			if err != nil {
				c.e4report("C09-G0", inst, p, err)
				continue
			}
			mn, mx := ks.minMax()
			var ps []f9piece
			var perr error
			for _, kp := range k.pieces {
				ev := &intEval{pc: piece{new(big.Int).Set(mn), new(big.Int).Set(mx)}, src: ks, isSample: k.sample}
				for _, cd := range kp.conds {
					if err := ev.split(cd.Orig, cd.OrigNeg); err != nil {
						perr = err
						break
					}
					if ev.pc.empty() {
						break
					}
				}
				if perr != nil {
					break
				}
				if ev.pc.empty() {
					continue
				}
				ch, err := floatChain(kp.val, ev)
				if err != nil {
					perr = err
					break
				}
				if up, why := ch.monotoneUp(); !up {
					perr = e4fail("piece %s is not monotone non-decreasing: %s", ev.pc, why)
					break
				}
				ps = append(ps, f9piece{ev.pc, ch, kp})
			}
			if perr == nil {
				sort.Slice(ps, func(i, j int) bool { return ps[i].pc.lo.Cmp(ps[j].pc.lo) < 0 })
				cur := new(big.Int).Set(mn)
				for _, q := range ps {
					if q.pc.lo.Cmp(cur) != 0 {
						perr = e4fail("pieces do not partition the code range at %s", cur)
						break
					}
					cur = new(big.Int).Add(q.pc.hi, big.NewInt(1))
				}
				if perr == nil && cur.Cmp(new(big.Int).Add(mx, big.NewInt(1))) != 0 {
					perr = e4fail("pieces do not cover the code range up to %s", mx)
				}
			}
			if perr != nil {
				c.undecided("C09-G0", inst, p, perr.Error())
				continue
			}
			c.proved("C09-G0", inst, p, fmt.Sprintf("%d monotone pieces", len(ps)))
			tS := c.typeByName(sn)
			img := func(x *big.Int) (float64, bool) {
				for _, q := range ps {
					if x.Cmp(q.pc.lo) >= 0 && x.Cmp(q.pc.hi) <= 0 {
						r, ok := pointEval(q.kp.val, k.sample, mkBig(x, tS))
						if !ok {
							return 0, false
						}
						return constFloat(r)
					}
				}
				return 0, false
			}
			// G1
			slo, shi := codeRange(ks, ds)
			okG1 := true
			dG1 := ""
			for _, r := range []struct {
				name string
				x    *big.Int
				want float64
			}{{"lowest", slo, -1}, {"zero-amplitude", zeroCode(ks, ds), 0}, {"highest", shi, 1}} {
				got, ok := img(r.x)
				if !ok {
					okG1, dG1 = false, "image of the "+r.name+" code does not fold to a constant"
				} else if got != r.want {
					okG1, dG1 = false, fmt.Sprintf("%s code %s maps to %v, expected %v", r.name, r.x, got, r.want)
				}
			}
			if okG1 {
				c.proved("C09-G1", inst, p, "-1 / 0 / 1 at the reference codes")
			} else {
				c.refuted("C09-G1", inst, p, dG1, dG1)
			}
			// G2 + G3 boundaries
			okG2 := true
			dG2 := ""
			g3 := ds <= 32 && kd.Bits == 64
			for i := 1; i < len(ps); i++ {
				a, b := ps[i-1], ps[i]
				va, ok1 := img(a.pc.hi)
				vb, ok2 := img(b.pc.lo)
				if !ok1 || !ok2 {
					okG2, dG2 = false, "boundary images do not fold"
					continue
				}
				if va > vb {
					okG2, dG2 = false, fmt.Sprintf("order inverted at the piece boundary: code %s -> %v, code %s -> %v", a.pc.hi, va, b.pc.lo, vb)
				}
				if g3 {
					bi := fmt.Sprintf("%s/boundary@code=%s", inst, b.pc.lo)
					if va < vb {
						c.proved("C09-G3", bi, p, fmt.Sprintf("%v < %v", va, vb))
					} else {
						c.refuted("C09-G3", bi, p, fmt.Sprintf("codes %s and %s both map to %v: distinct samples give the same float64 value", a.pc.hi, b.pc.lo, va),
							fmt.Sprintf("source samples %s and %s of type %s", a.pc.hi, b.pc.lo, sn))
					}
				}
			}
			c.expect(okG2, "C09-G2", inst, p, "pieces monotone, boundaries ordered", dG2)
			// per piece: G3 (inside), G4, G5
			offS := offsetOf(ks, ds)
			msvD := bigToFloat(new(big.Int).Sub(pow2(ds-1), big.NewInt(1)), kd)
			msv1D := roundTo(msvD+1, kd)
			maxAbsA := new(big.Int)
			okIn := true
			dIn := ""
			for _, q := range ps {
				pi := fmt.Sprintf("%s/piece[%s,%s]", inst, q.pc.lo, q.pc.hi)
				K, kop, one := q.ch.divisor()
				if !one {
					c.refuted("C09-G4", pi, p, "the piece does not divide the amplitude by exactly one constant", "")
					continue
				}
				okK := K == msvD || K == msv1D
				if !okK {
					// a kernel that divides in float64 and narrows only the quotient uses the full scale as float64
					// holds it (exact up to 2^53): the same full scale, one rounding less
					k64 := numKind{Float: true, Bits: 64, OK: true}
					m64 := bigToFloat(new(big.Int).Sub(pow2(ds-1), big.NewInt(1)), k64)
					okK = K == m64 || K == roundTo(m64+1, k64)
				}
				if kop == "mul" && !isP2(K) {
					c.refuted("C09-G4", pi, p, fmt.Sprintf("the amplitude is multiplied by a pre-rounded reciprocal (1/%v) instead of being divided by the full scale: the product is not the correctly rounded quotient, so the matching float-to-fixed conversion does not return the original sample", K),
						"a positive amplitude whose product with the rounded reciprocal falls one ulp below the quotient (e.g. int8 17)")
					continue
				}
				c.expect(okK, "C09-G4", pi, p, fmt.Sprintf("divisor %v", K), fmt.Sprintf("divisor %v is neither the full scale %v nor %v", K, msv1D, msvD))
				alo, ahi := new(big.Int).Sub(q.pc.lo, offS), new(big.Int).Sub(q.pc.hi, offS)
				for _, v := range []*big.Int{alo, ahi} {
					if new(big.Int).Abs(v).Cmp(maxAbsA) > 0 {
						maxAbsA = new(big.Int).Abs(v)
					}
				}
				switch {
				case ahi.Sign() <= 0:
					c.expect(K == msv1D, "C09-G5", pi, p, "non-positive amplitudes / 2^(d-1)", fmt.Sprintf("non-positive amplitudes are divided by %v, the inverse conversion multiplies them by %v", K, msv1D))
				case alo.Sign() > 0:
					c.expect(K == msvD, "C09-G5", pi, p, "positive amplitudes / (2^(d-1)-1)", fmt.Sprintf("positive amplitudes are divided by %v, the inverse conversion multiplies them by %v", K, msvD))
				default:
					if msvD == msv1D {
						c.proved("C09-G5", pi, p, "both full scales round to the same value at this precision")
					} else {
						c.refuted("C09-G5", pi, p, fmt.Sprintf("the piece spans amplitudes %s..%s of both signs but divides all of them by %v (the branch tests the raw code, not the amplitude): amplitudes of the other sign use the wrong full scale", alo, ahi, K),
							fmt.Sprintf("code %s (amplitude %s) of type %s", q.pc.lo, alo, sn))
					}
				}
				if g3 {
					// inside the piece: exact conversion, exact add/sub, one rounding step, magnitudes below 2^51
					a, b, lin := q.ch.inner.linear()
					if !lin || a.Cmp(big.NewInt(1)) != 0 {
						okIn, dIn = false, "integer operand of the float conversion is not x + c"
					}
					nlo, nhi := new(big.Int).Add(q.pc.lo, b), new(big.Int).Add(q.pc.hi, b)
					roundings := 0
					for _, st := range q.ch.steps {
						switch st.op {
						case "add", "sub":
							if roundings > 0 || st.c != math.Trunc(st.c) {
								okIn, dIn = false, "addition after the rounding step or of a non-integer"
							}
							ci, _ := new(big.Float).SetFloat64(st.c).Int(nil)
							if st.op == "sub" {
								ci.Neg(ci)
							}
							nlo, nhi = new(big.Int).Add(nlo, ci), new(big.Int).Add(nhi, ci)
						case "mul", "div":
							roundings++
						case "conv-float":
							if st.bits < 64 {
								okIn, dIn = false, "float32 intermediate"
							}
						case "conv-int":
							if st.bits < 64 {
								okIn, dIn = false, "float32 intermediate"
							}
						}
					}
					lim := pow2(51)
					if new(big.Int).Abs(nlo).Cmp(lim) > 0 || new(big.Int).Abs(nhi).Cmp(lim) > 0 {
						okIn, dIn = false, "numerators exceed 2^51"
					}
					if roundings != 1 || !(K >= 1) {
						okIn, dIn = false, fmt.Sprintf("%d rounding steps (%s), divisor %v", roundings, kop, K)
					}
				}
			}
			if g3 {
				c.expect(okIn, "C09-G3", inst+"/within-pieces", p, "distinct codes of one piece give distinct values (spacing 1/K against ulp)", dIn)
			}
			// G6
			u := 0.0
			switch {
			case kd.Bits == 64 && ds <= 32:
				u = math.Ldexp(1, -53)
			case kd.Bits == 32 && ds <= 16:
				u = math.Ldexp(1, -24)
			}
			if u > 0 {
				a, _ := new(big.Float).SetInt(maxAbsA).Float64()
				bound := a * 4 * u * 1.01 // conv (exact), sub (exact), div, mul back, conversions: at most 4 roundings
				c.expect(bound < 1, "C09-G6", inst, p, fmt.Sprintf("|A|max*4u = %.3g < 1", bound), fmt.Sprintf("rounding bound %.3g is not below one step", bound))
			}
		}
	}
	// G7: the round trip is stated for an inverse conversion that truncates toward zero: a forward scale that differs
	// from the scale the inverse multiplies with (by one part in 2^(d-1), rule G5) moves the product k*K'/K above k by
	// less than one step, which truncation absorbs and rounding to nearest does not. An inverse that rounds is
	// therefore accepted only where every piece of the forward conversion divides by exactly the matching scale.
	c.rule("C09-G7", "the inverse conversion truncates; where it rounds to nearest, every piece of the forward conversion divides by exactly the scale the inverse multiplies with (G5 without exception)", 2)
	for _, pair := range [][2]string{{"FloatAsSigned", "SignedAsFloat"}, {"FloatAsUnsigned", "UnsignedAsFloat"}} {
		fn := c.anchor("C09-G7", pair[0])
		if fn == nil {
			continue
		}
		sm := c.Summary(fn)
		rounds := ""
		for _, o := range sm.Outcomes {
			for _, e := range o.St.effects {
				if e.Kind != EStoreElem {
					continue
				}
				if v := valTerm(e.Val); v != nil {
					v.walk(func(x *Term) bool {
						if x.Op == OpCall && (x.Name == "math.Round" || x.Name == "math.RoundToEven" || x.Name == "math.Floor" || x.Name == "math.Ceil") {
							rounds = x.Name
						}
						return rounds == ""
					})
				}
			}
		}
		if rounds == "" {
			c.proved("C09-G7", pair[0], c.pos(fn.Pos()), "the stored code is the truncating conversion of the scaled sample")
			continue
		}
		mismatch := ""
		for _, ob := range c.Obligs {
			if ob.Rule == "C09-G5" && strings.HasPrefix(ob.Instance, pair[1]+"[") && ob.Verdict != Proved {
				mismatch = ob.Instance
				break
			}
		}
		c.expect(mismatch == "", "C09-G7", pair[0], c.pos(fn.Pos()), "rounds to nearest ("+rounds+"), and every piece of "+pair[1]+" divides by the matching scale",
			fmt.Sprintf("%s quantises with %s, but %s does not divide by the scale the inverse multiplies with (%s): the excess k/(2^(d-1)-1) is cut off by truncation, rounding turns it into the next code for a quarter of the codes, so the round trip no longer returns the sample", pair[0], rounds, pair[1], mismatch))
	}
}

// ---------------- C08 ----------------

type f8piece struct {
	pc fpiece
	v  FV
	kp kernelPiece
}

func nextAfter(v float64, up bool, k numKind) float64 {
	if k.Bits == 32 {
		d := float32(math.Inf(-1))
		if up {
			d = float32(math.Inf(1))
		}
		return float64(math.Nextafter32(float32(v), d))
	}
	if up {
		return math.Nextafter(v, math.Inf(1))
	}
	return math.Nextafter(v, math.Inf(-1))
}

func checkC08(c *Checker) {
	depthInvariant(c, "C08-D0")
	c.rule("C08-F1", "no wrap: every float->integer conversion in the kernel (including overflow probes) has an operand whose interval under the path condition lies inside the destination type's range; integer arithmetic after it stays in range", 22)
	c.rule("C08-F2", "clipping: the pieces cover [-Inf,+Inf]; on [1,+Inf] the highest code is stored, on [-Inf,-1] the lowest", 22)
	c.rule("C08-F3", "linear map: inner pieces store conv(f*K) (+offset) with K = 2^(d-1)-1 for f > 0 and K = 2^(d-1) for f < 0, one truncation; zero maps to the zero-amplitude code", 22)
	c.rule("C08-F4", "order: every piece is monotone non-decreasing and images are ordered at every piece boundary", 22)
	c.NotDecided = append(c.NotDecided, "NaN inputs (excluded by the property)", "the one-step accuracy bound |code - f*fullscale| < 1 + rounding follows from F3 by a lemma that is not mechanised")
	c.Trusted = append(c.Trusted, "IEEE-754 round-to-nearest arithmetic of the host for constant folding; a float->integer conversion out of range is implementation-defined (Go specification) and treated as a violation")
	type pr struct{ s, d string }
	var prs []pr
	for _, sn := range floatTypes {
		for _, dn := range intTypeNames() {
			prs = append(prs, pr{sn, dn})
		}
	}
	for _, sn := range namedFloats() {
		for _, dn := range append(namedSigned()[:2], namedUnsigned()[:2]...) {
			prs = append(prs, pr{sn, dn})
		}
	}
	for _, q := range prs {
		{
			sn, dn := q.s, q.d
			ks, kd := kindOf(c.typeByName(sn)), kindOf(c.typeByName(dn))
			name := "FloatAsUnsigned"
			if kd.Signed {
				name = "FloatAsSigned"
			}
			inst := fmt.Sprintf("%s[%s,%s]", name, sn, dn)
			fn := c.instFn(name, sn, dn)
			if fn == nil {
				c.undecided("C08-F1", inst, "", "instantiation not found")
				continue
			}
			p := c.pos(fn.Pos())
			ds, ok1 := c.depthOf(sn)
			dd, ok2 := c.depthOf(dn)
			if !ok1 || !ok2 {
				c.undecided("C08-F1", inst, p, "bit depth does not evaluate to a constant")
				continue
			}
			k, err := c.extractKernel(fn, ds, dd)
			if err != nil {
				c.e4report("C08-F1", inst, p, err)
				continue
			}
			var ps []f8piece
			var und error
			nBad := 0
			type f8job struct {
				kp       kernelPiece
				restrict *fpiece
			}
			var jobs []f8job
			for _, kp := range k.pieces {
				jobs = append(jobs, f8job{kp, nil})
			}
			for ji := 0; ji < len(jobs); ji++ {
				job := jobs[ji]
				kp := job.kp
				ev := &floatEval{pc: fullFPiece(), isSample: k.sample}
				for _, cd := range kp.conds {
					ok, err := ev.splitF(cd.Orig, cd.OrigNeg)
					if err != nil {
						und = err
						break
					}
					if ok {
						if ev.pc.empty() {
							break
						}
						continue
					}
					// a condition that is not "sample compared with a constant": its conversions are still obligations,
					// and it carries no information about f
					if cd.Orig.Op == OpCmp {
						for _, a := range cd.Orig.Args {
							if _, err := ev.eval(a); err != nil && len(ev.sites) == 0 {
								und = err
							}
						}
					} else {
						und = e4fail("branch condition outside the kernel language: %s", pretty(cd.Orig))
					}
				}
				if und != nil {
					break
				}
				if job.restrict != nil {
					ev.pc = *job.restrict
				}
				if ev.pc.empty() {
					continue
				}
				// a piece that covers both signs (a branch on the sign that folded away because both arms are the
				// same expression) is read as its two halves
				if ev.pc.lo.v < 0 && ev.pc.hi.v > 0 && job.restrict == nil {
					neg, pos := ev.pc, ev.pc
					neg.hi = fbound{0, false}
					pos.lo = fbound{0, true}
					jobs = append(jobs, f8job{kp, &neg}, f8job{kp, &pos})
					continue
				}
				v, err := ev.eval(kp.val)
				for _, st := range ev.sites {
					if !st.ok {
						nBad++
						c.refuted("C08-F1", fmt.Sprintf("%s/conversion@%s", inst, c.pos(st.pos)), c.pos(st.pos), st.detail, fmt.Sprintf("%s with %s", inst, st.witness))
					}
				}
				if err != nil {
					bad := false
					for _, st := range ev.sites {
						if !st.ok {
							bad = true
						}
					}
					if !bad {
						und = err
						break
					}
					continue
				}
				if !v.isInt {
					und = e4fail("stored value is not an integer")
					break
				}
				ps = append(ps, f8piece{ev.pc, v, kp})
			}
			if und != nil {
				c.undecided("C08-F1", inst, p, und.Error())
				continue
			}
			if nBad > 0 {
				continue
			}
			c.proved("C08-F1", inst, p, fmt.Sprintf("%d pieces, every conversion in range", len(ps)))
			sort.Slice(ps, func(i, j int) bool {
				if ps[i].pc.lo.v != ps[j].pc.lo.v {
					return ps[i].pc.lo.v < ps[j].pc.lo.v
				}
				return !ps[i].pc.lo.strict && ps[j].pc.lo.strict
			})
			// F2 coverage and clipping
			okF2 := len(ps) > 0
			dF2 := ""
			if okF2 {
				if !(math.IsInf(ps[0].pc.lo.v, -1) && math.IsInf(ps[len(ps)-1].pc.hi.v, 1)) {
					okF2, dF2 = false, "pieces do not reach the infinities"
				}
				for i := 1; i < len(ps); i++ {
					a, b := ps[i-1].pc.hi, ps[i].pc.lo
					if a.v != b.v || a.strict == b.strict {
						okF2, dF2 = false, fmt.Sprintf("gap or overlap between pieces %s and %s", ps[i-1].pc, ps[i].pc)
					}
				}
			}
			dlo, dhi := codeRange(kd, dd)
			for _, q := range ps {
				isConst := q.v.dir == 0 && q.v.ilo.Cmp(q.v.ihi) == 0
				if q.pc.hi.v > 1 || (q.pc.hi.v == 1 && !q.pc.hi.strict) {
					if q.pc.lo.v < 1 || !isConst || q.v.ilo.Cmp(dhi) != 0 {
						okF2, dF2 = false, fmt.Sprintf("inputs >= 1 on piece %s are not all stored as the highest code %s (stored: %s)", q.pc, dhi, q.v.desc)
					}
				}
				if q.pc.lo.v < -1 || (q.pc.lo.v == -1 && !q.pc.lo.strict) {
					if q.pc.hi.v > -1 || !isConst || q.v.ilo.Cmp(dlo) != 0 {
						okF2, dF2 = false, fmt.Sprintf("inputs <= -1 on piece %s are not all stored as the lowest code %s (stored: %s)", q.pc, dlo, q.v.desc)
					}
				}
			}
			c.expect(okF2, "C08-F2", inst, p, "clips to the highest / lowest code outside (-1,1)", dF2)
			// F3
			tS := c.typeByName(sn)
			at := func(f float64) (*big.Int, bool) {
				for _, q := range ps {
					inLo := f > q.pc.lo.v || (f == q.pc.lo.v && !q.pc.lo.strict)
					inHi := f < q.pc.hi.v || (f == q.pc.hi.v && !q.pc.hi.strict)
					if inLo && inHi {
						r, ok := pointEval(q.kp.val, k.sample, mkFloat(f, tS))
						if !ok {
							return nil, false
						}
						return bigOf(r.C)
					}
				}
				return nil, false
			}
			okF3 := true
			dF3 := ""
			msvF := bigToFloat(new(big.Int).Sub(pow2(dd-1), big.NewInt(1)), numKind{Float: true, Bits: 64, OK: true})
			fullNeg := math.Ldexp(1, int(dd-1))
			for _, q := range ps {
				if q.pc.lo.v >= 1 || q.pc.hi.v <= -1 {
					continue
				}
				var wantSlope *big.Rat
				switch {
				case q.pc.lo.v >= 0 && q.pc.hi.v > 0:
					wantSlope = ratF(msvF)
				case q.pc.hi.v <= 0 && q.pc.lo.v < 0:
					wantSlope = ratF(fullNeg)
				default:
					okF3, dF3 = false, fmt.Sprintf("piece %s spans both signs with one multiplier", q.pc)
				}
				wantIcpt := new(big.Rat).SetInt(zeroCode(kd, dd))
				switch {
				case wantSlope == nil:
				case q.v.slope == nil || q.v.icpt == nil:
					okF3, dF3 = false, fmt.Sprintf("value on %s is not an affine function of the input: %s", q.pc, q.v.desc)
				case q.v.slope.Cmp(wantSlope) != 0:
					okF3, dF3 = false, fmt.Sprintf("inputs on %s are scaled by %s, expected the full scale %s", q.pc, q.v.slope.FloatString(1), wantSlope.FloatString(1))
				case q.v.icpt.Cmp(wantIcpt) != 0:
					okF3, dF3 = false, fmt.Sprintf("codes on %s are offset by %s, expected the zero-amplitude code %s", q.pc, q.v.icpt.FloatString(1), wantIcpt.FloatString(1))
				case q.v.err == nil || q.v.err.Cmp(big.NewRat(1, 1)) >= 0:
					es := "unbounded"
					if q.v.err != nil {
						es = q.v.err.FloatString(1)
					}
					okF3, dF3 = false, fmt.Sprintf("floating-point rounding before the truncation on %s can move the result by %s quantisation steps (value %s): not within one step of input x full scale", q.pc, es, q.v.desc)
				}
				n := 0
				q.kp.val.walk(func(x *Term) bool {
					if x.Op == OpConv && kindOf(x.Typ).OK && !kindOf(x.Typ).Float && kindOf(x.Args[0].Typ).Float && !x.Args[0].IsConst() {
						n++
					}
					return true
				})
				if n != 1 {
					okF3, dF3 = false, fmt.Sprintf("%d float->integer conversions in the value on %s (expected one truncation)", n, q.pc)
				}
			}
			if z, ok := at(0); !ok || z.Cmp(zeroCode(kd, dd)) != 0 {
				okF3, dF3 = false, fmt.Sprintf("input 0 maps to %v, expected the zero-amplitude code %s", z, zeroCode(kd, dd))
			}
			c.expect(okF3, "C08-F3", inst, p, "f*(2^(d-1)-1) for f>0, f*2^(d-1) for f<0, truncated; 0 -> zero code", dF3)
			// F4
			okF4 := true
			dF4, wF4 := "", ""
			for _, q := range ps {
				if q.v.dir < 0 {
					okF4, dF4 = false, fmt.Sprintf("the stored code decreases with the input on %s: %s", q.pc, q.v.desc)
				}
			}
			for i := 1; i < len(ps) && okF4; i++ {
				a, b := ps[i-1], ps[i]
				fa, fb := a.pc.hi.v, b.pc.lo.v
				if a.pc.hi.strict {
					fa = nextAfter(fa, false, ks)
				}
				if b.pc.lo.strict {
					fb = nextAfter(fb, true, ks)
				}
				va, ok1 := at(fa)
				vb, ok2 := at(fb)
				if !ok1 || !ok2 {
					okF4, dF4 = false, fmt.Sprintf("boundary images at %v / %v do not fold to constants", fa, fb)
					continue
				}
				if va.Cmp(vb) > 0 {
					okF4, dF4 = false, fmt.Sprintf("order inverted at %v: input %v -> %s, input %v -> %s", b.pc.lo.v, fa, va, fb, vb)
					wF4 = fmt.Sprintf("inputs %v and %v", fa, fb)
				}
			}
			if okF4 {
				c.proved("C08-F4", inst, p, "monotone pieces, boundaries ordered")
			} else {
				c.refuted("C08-F4", inst, p, dF4, wF4)
			}
		}
	}
}
