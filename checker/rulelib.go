package main

import (
	"fmt"
	"go/types"
	"math/big"
	"sort"
	"strings"

	"golang.org/x/tools/go/ssa"
)

// buf names the entry atoms of a *Buffer[T] parameter (or receiver).
type buf struct{ name string }

func (b buf) lenT() *Term   { return mkAtom("len("+b.name+hdrLayout.dataSuffix()+")", intT) }
func (b buf) capT() *Term   { return mkAtom("cap("+b.name+hdrLayout.dataSuffix()+")", intT) }
func (b buf) ch() *Term     { return mkAtom(b.name+hdrLayout.chSuffix(), intT) }
func (b buf) depth() *Term  { return mkAtom(b.name+hdrLayout.depthSuffix(), intT) }
func (b buf) stor() string  { return b.name + hdrLayout.dataSuffix() }
func (b buf) obj() string   { return "*" + b.name }
func (b buf) length() *Term { return specLength(b.lenT(), b.ch()) }

func zeroT() *Term { return mkInt(0, intT) }

func specMin(a, b *Term) *Term { return mkMinMax(OpMin, canon(a), canon(b)) }
func specMax(a, b *Term) *Term { return mkMinMax(OpMax, canon(a), canon(b)) }
func specCeilDiv(a, b *Term) *Term {
	return &Term{Op: OpCeilDiv, Typ: intT, Args: []*Term{canon(a), canon(b)}}
}
func specLength(ln, ch *Term) *Term {
	return canonIte(Cond{Kind: CEQ0, P: normSign(normInt(ch))}, zeroT(), specCeilDiv(ln, ch))
}
func specFloorDiv0(a, b *Term) *Term {
	return canonIte(Cond{Kind: CEQ0, P: normSign(normInt(b))}, zeroT(), &Term{Op: OpDiv, Typ: intT, Args: []*Term{canon(a), canon(b)}})
}
func specAdd(a, b *Term) *Term { return normInt(a).Add(normInt(b)).toTerm() }
func specMul(a, b *Term) *Term { return normInt(a).Mul(normInt(b)).toTerm() }
func specSub(a, b *Term) *Term { return normInt(a).Sub(normInt(b)).toTerm() }

// eqInt compares two integer terms as polynomials (after canonicalisation).
func eqInt(a, b *Term) bool {
	if a == nil || b == nil {
		return false
	}
	return normInt(a).Equal(normInt(b))
}

func eqCanon(a, b *Term) bool {
	if a == nil || b == nil {
		return false
	}
	if isIntLike(a.Typ) && isIntLike(b.Typ) {
		return eqInt(a, b)
	}
	return canon(a).Key() == canon(b).Key()
}

// stripZeroGuard: ite(ch == 0, 0, X) -> X (properties quantified over channels >= 1).
func stripZeroGuard(t *Term, ch *Term) *Term {
	c := canon(t)
	if c.Op != OpIte {
		return c
	}
	cond := condOf(c.Args[0], false)
	want := normSign(normInt(ch))
	if (cond.Kind == CEQ0 || cond.Kind == CNE0) && cond.P.Equal(want) {
		a, b := c.Args[1], c.Args[2]
		if cond.Kind == CNE0 {
			a, b = b, a
		}
		if v, ok := normInt(a).IsConst(); ok && v.Sign() == 0 {
			return b
		}
	}
	return c
}

func retPaths(s *Summary) []Outcome {
	var r []Outcome
	for _, o := range s.Outcomes {
		if o.Kind == ORet {
			r = append(r, o)
		}
	}
	return r
}

func panicPaths(s *Summary) []Outcome {
	var r []Outcome
	for _, o := range s.Outcomes {
		if o.Kind == OPanic {
			r = append(r, o)
		}
	}
	return r
}

func mods(o Outcome) []*Effect {
	var r []*Effect
	for _, e := range o.St.effects {
		if e.Modifies() {
			r = append(r, e)
		}
	}
	return r
}

func effectsOf(o Outcome, kinds ...EffKind) []*Effect {
	var r []*Effect
	for _, e := range o.St.effects {
		for _, k := range kinds {
			if e.Kind == k {
				r = append(r, e)
			}
		}
	}
	return r
}

// nonAxiomFacts are the branch decisions of a path.
func nonAxiomFacts(f *Facts) []Cond {
	var r []Cond
	for _, c := range f.list {
		if c.Tag != "axiom" {
			r = append(r, c)
		}
	}
	return r
}

// feasible reports whether the path is consistent with the assumptions.
func feasible(o Outcome, assume *Facts) bool {
	if assume == nil {
		return true
	}
	for _, c := range nonAxiomFacts(o.St.facts) {
		if assume.eval(c) == No {
			return false
		}
	}
	return true
}

func hasFact(f *Facts, c Cond) bool {
	for _, e := range f.list {
		if e.Key() == c.Key() {
			return true
		}
	}
	return false
}

// channelsPositive builds the assumption channels >= 1 for buffers.
func channelsPositive(bs ...buf) *Facts {
	f := &Facts{}
	for _, b := range bs {
		f.add(Cond{Kind: CGE0, P: normInt(b.ch()).AddInt(-1)})
	}
	return f
}

// mergedRet merges the return terms of the given paths into one term.
func mergedRet(outs []Outcome) *Term {
	if len(outs) == 0 {
		return nil
	}
	if len(outs) == 1 {
		t, _ := outs[0].Ret.(*Term)
		return t
	}
	t, ok := mergeIte(outs, 0, 0)
	if !ok {
		return nil
	}
	return t
}

// stripConv removes conversion layers, returning the inner term and the
// number of layers removed.
func stripConv(t *Term) (*Term, int) {
	n := 0
	for t != nil && t.Op == OpConv {
		t = t.Args[0]
		n++
	}
	return t, n
}

// isElemOf: t is a load of element idx of the named storage.
func isElemOf(t *Term, stor string, idx *Term) bool {
	return t != nil && t.Op == OpElem && t.Stor != nil && t.Stor.Name == stor && eqInt(t.Args[0], idx)
}

func paramName(fn *ssa.Function, i int) string {
	if i < len(fn.Params) {
		return fn.Params[i].Name()
	}
	return fmt.Sprintf("<param%d>", i)
}

// bufferParams returns the names of the parameters of type *Buffer[...].
func bufferParams(fn *ssa.Function) []string {
	var out []string
	for _, p := range fn.Params {
		if isBufferPtr(p.Type()) {
			out = append(out, p.Name())
		}
	}
	return out
}

func isBufferPtr(t types.Type) bool {
	pt, ok := t.Underlying().(*types.Pointer)
	if !ok {
		return false
	}
	n, ok := pt.Elem().(*types.Named)
	return ok && n.Obj().Name() == "Buffer"
}

func sliceParams(fn *ssa.Function) []string {
	var out []string
	for _, p := range fn.Params {
		if _, ok := p.Type().Underlying().(*types.Slice); ok {
			out = append(out, p.Name())
		}
	}
	return out
}

func loopsKey(ls []*LoopCtx) string {
	var sb strings.Builder
	for _, l := range ls {
		fmt.Fprintf(&sb, "L%d;", l.ID)
	}
	return sb.String()
}

// describeEffects renders the modifying effects of a path (for reports).
func describeEffects(es []*Effect) string {
	parts := make([]string, len(es))
	for i, e := range es {
		parts[i] = e.String()
	}
	return strings.Join(parts, " | ")
}

// atomNames returns the atom names of a term including those inside element indices.
func atomNames(t *Term) []string { return t.atoms() }

// elemLoads returns all element loads inside t.
func elemLoads(t *Term) []*Term {
	var out []*Term
	t.walk(func(x *Term) bool {
		if x.Op == OpElem {
			out = append(out, x)
		}
		return true
	})
	return out
}

// valTerm returns the scalar term of a value (nil otherwise).
func valTerm(v Val) *Term {
	t, _ := v.(*Term)
	return t
}

// shapeAssume: channels >= 1 and the slice invariants 0 <= len <= cap of the given buffers.
func shapeAssume(bs ...buf) *Facts {
	f := channelsPositive(bs...)
	for _, b := range bs {
		f.add(Cond{Kind: CGE0, P: normInt(b.lenT())})
		f.add(Cond{Kind: CGE0, P: normInt(b.capT()).Sub(normInt(b.lenT()))})
	}
	return f
}

// simplifyUnder rewrites a term using facts that hold where it is evaluated:
// if-then-else nodes whose condition is decided are resolved (the zero-channel
// guards disappear under channels >= 1); a guard that only special-cases a
// value the general branch already yields is dropped (ite(n <= 0, 0, X) with
// X = 0 at n = 0); and the integer idiom 1 + (n-1)/b is read as ceildiv(n, b)
// where n >= 1 and b >= 1 are known.
func simplifyUnder(t *Term, assume *Facts) *Term {
	if t == nil || assume == nil {
		return t
	}
	t = canon(t)
	var rw func(*Term, *Facts, int) *Term
	rw = func(x *Term, f *Facts, depth int) *Term {
		if len(x.Args) == 0 || depth > 24 {
			return x
		}
		if x.Op == OpIte {
			c := condOf(x.Args[0], false)
			switch f.eval(c) {
			case Yes:
				return rw(x.Args[1], f, depth+1)
			case No:
				return rw(x.Args[2], f, depth+1)
			}
			f1, f2 := f.clone(), f.clone()
			f1.add(c)
			f2.add(c.Not())
			a, b := rw(x.Args[1], f1, depth+1), rw(x.Args[2], f2, depth+1)
			if z, ok := normIntConst(a); ok && z == 0 && isZeroUnder(f1, b, 0) {
				return b
			}
			if z, ok := normIntConst(b); ok && z == 0 && isZeroUnder(f2, a, 0) {
				return a
			}
			if a.Key() == b.Key() {
				return a
			}
			// ite(n % b == 0, n/b, 1 + n/b)  ==>  ceildiv(n, b)   for n >= 0, b >= 1
			if (c.Kind == CEQ0 || c.Kind == CNE0) && len(c.P.m) == 1 {
				for _, mo := range c.P.m {
					if len(mo.factors) == 1 && mo.factors[0].Op == OpRem {
						rm := mo.factors[0]
						n, d := normInt(rm.Args[0]), normInt(rm.Args[1])
						q := polyAtom(canon(&Term{Op: OpDiv, Typ: intT, Args: []*Term{rm.Args[0], rm.Args[1]}}))
						exactBr, upBr := a, b
						if c.Kind == CNE0 {
							exactBr, upBr = b, a
						}
						// 1 + n/d may already have been read as ceildiv(n+1, d)
						upOK := isIntLike(upBr.Typ) && (normInt(upBr).Equal(q.AddInt(1)) ||
							(upBr.Op == OpCeilDiv && normInt(upBr.Args[0]).Equal(n.AddInt(1)) && normInt(upBr.Args[1]).Equal(d)))
						if isIntLike(exactBr.Typ) && upOK && normInt(exactBr).Equal(q) &&
							f.impliesGE0(n) && f.impliesGE0(d.AddInt(-1)) {
							return &Term{Op: OpCeilDiv, Typ: intT, Args: []*Term{n.toTerm(), d.toTerm()}}
						}
					}
				}
			}
			return &Term{Op: OpIte, Typ: a.Typ, Args: []*Term{c.Term(), a, b}}
		}
		args := make([]*Term, len(x.Args))
		ch := false
		for i, a := range x.Args {
			args[i] = rw(a, f, depth+1)
			if args[i] != a {
				ch = true
			}
		}
		y := x
		if ch {
			c := *x
			c.Args = args
			c.key = ""
			y = &c
		}
		// min/max decided by the facts
		if (y.Op == OpMin || y.Op == OpMax) && len(y.Args) == 2 && isIntLike(y.Typ) {
			a, b := normInt(y.Args[0]), normInt(y.Args[1])
			switch {
			case f.impliesGE0(b.Sub(a)): // a <= b
				if y.Op == OpMin {
					return y.Args[0]
				}
				return y.Args[1]
			case f.impliesGE0(a.Sub(b)): // b <= a
				if y.Op == OpMin {
					return y.Args[1]
				}
				return y.Args[0]
			}
		}
		// 1 + (n-1)/b  ==>  ceildiv(n, b)   for n >= 1, b >= 1
		if isIntLike(y.Typ) && (y.Op == OpAdd || y.Op == OpSub) {
			p := normInt(y)
			if len(p.m) == 2 && hasConst(p, 1) {
				for k, mo := range p.m {
					if k == "" || len(mo.factors) != 1 || mo.coef.Cmp(bigOne) != 0 || mo.factors[0].Op != OpDiv {
						continue
					}
					d := mo.factors[0]
					n, b := normInt(d.Args[0]), normInt(d.Args[1])
					if f.impliesGE0(n) && f.impliesGE0(b.AddInt(-1)) {
						return &Term{Op: OpCeilDiv, Typ: intT, Args: []*Term{n.AddInt(1).toTerm(), b.toTerm()}}
					}
				}
			}
		}
		return y
	}
	return canon(rw(t, assume, 0))
}

func eqUnder(a, b *Term, assume *Facts) bool {
	if a == nil || b == nil {
		return false
	}
	return eqCanon(simplifyUnder(a, assume), simplifyUnder(b, assume))
}

// simplifyFacts rewrites the polynomials of the facts under the assumptions (so that, e.g., the zero-channel
// guard inside an opaque Length term disappears from the facts as it does from the terms they are compared with).
func simplifyFacts(f *Facts, assume *Facts) *Facts {
	out := assume.clone()
	for _, c := range f.list {
		if c.P == nil {
			out.add(c)
			continue
		}
		np := newPoly()
		for _, mo := range c.P.m {
			term := polyConst(mo.coef)
			for _, fac := range mo.factors {
				term = term.Mul(normInt(simplifyUnder(fac, assume)))
			}
			np = np.Add(term)
		}
		nc := c
		nc.P = np
		if c.Kind == CEQ0 || c.Kind == CNE0 {
			nc.P = normSign(np)
		}
		out.add(nc)
	}
	return out
}

// withZeroAtoms adds x == 0 for every opaque factor of the facts that is zero under them (e.g. a Length
// term of a zero-length buffer), so that bounds stated against such a factor become usable.
func withZeroAtoms(f *Facts) *Facts {
	out := f.clone()
	seen := map[string]bool{}
	for _, c := range f.list {
		if c.P == nil {
			continue
		}
		for _, mo := range c.P.m {
			for _, fac := range mo.factors {
				if seen[fac.Key()] || fac.Op == OpAtom || !isIntLike(fac.Typ) {
					continue
				}
				seen[fac.Key()] = true
				if isZeroUnder(f, fac, 0) {
					out.add(Cond{Kind: CEQ0, P: normSign(polyAtom(fac))})
				}
			}
		}
	}
	return out
}

// checkI0: the shape engines read integers mathematically and erase integer->integer conversions. That is sound
// only if no such conversion can change the value. Every conversion that cannot represent all values of its
// source type (narrower target, or a sign change) is therefore an obligation, unless it is part of the sample
// arithmetic (operand derived from a sample, or inside a conversion kernel / BitDepth / Scale, which E4 and C16
// evaluate with machine semantics for every depth).
var shapeQuantified = map[string]bool{"C01": true, "C02": true, "C03": true, "C04": true, "C05": true, "C13": true, "C14": true, "C15": true, "C20": true}

func checkI0(c *Checker, rule string) {
	floor := 1 // the positive control below
	c.rule(rule, "premise of the shape arithmetic: every integer->integer conversion outside the sample kernels either cannot change the value (same width and signedness, or widening) or has an operand implied to lie in the target type's range", floor)
	// positive control: the generated function verifControlNarrow(x int) uint16 { return uint16(x) } must be refuted
	if cf := c.W.Fn("verifControlNarrow"); cf == nil {
		c.undecided(rule, "control/verifControlNarrow", "", "positive control function not found in the loaded package")
	} else {
		fired := false
		for _, o := range c.W.Interp.runQuiet(cf, nil).Outcomes {
			for _, e := range effectsOf(o, ENarrow) {
				if ok, _, _ := narrowInRange(e); !ok {
					fired = true
				}
			}
		}
		c.expect(fired, rule, "control/verifControlNarrow", "", "the rule refutes uint16(x) for an unconstrained int x", "positive control did not fire: uint16(x) of an unconstrained int was not reported")
	}
	kern := map[string]bool{}
	for _, n := range conversionNames {
		kern[n] = true
	}
	inKernel := func(fn *ssa.Function) bool {
		for f := fn; f != nil; f = f.Parent() {
			n := f.Name()
			if o := f.Origin(); o != nil {
				n = o.Name()
			}
			if kern[n] || n == "Scale" {
				return true
			}
			if f.Signature.Recv() != nil {
				rt := f.Signature.Recv().Type()
				if p, ok := rt.(*types.Pointer); ok {
					rt = p.Elem()
				}
				if nt, ok := rt.(*types.Named); ok && (nt.Obj().Name() == "BitDepth" || nt.Obj().Name() == "Frequency") {
					return true
				}
			}
		}
		return false
	}
	seen := map[string]bool{}
	nSites := 0
	// scope: the functions this property's own rules summarised, plus the constructor for the properties that
	// quantify over buffers of every shape (a shape lost in Alloc falsifies them for the buffers it produces)
	var fns []*ssa.Function
	for fn := range c.sums {
		fns = append(fns, fn)
	}
	if shapeQuantified[c.Prop] {
		if fn := c.W.Fn("Alloc"); fn != nil {
			if _, ok := c.sums[fn]; !ok {
				fns = append(fns, fn)
			}
		}
	}
	sort.Slice(fns, func(i, j int) bool { return fns[i].String() < fns[j].String() })
	for _, fn := range fns {
		s := c.Summary(fn)
		for _, o := range s.Outcomes {
			for _, e := range effectsOf(o, ENarrow) {
				if inKernel(e.Fn) || e.Idx == nil {
					continue
				}
				if e.Idx.contains(func(x *Term) bool { return x.Op == OpElem }) {
					continue // a sample being converted between element types: the conversion is the operation itself
				}
				inst := shortFn(c.W, e.Fn) + "/" + e.Note + " of " + pretty(canon(e.Idx))
				if seen[inst] {
					continue
				}
				nSites++
				inRange, lo, hi := narrowInRange(e)
				if strings.HasPrefix(e.Note, "reinterpreting") {
					seen[inst] = true
					c.proved(rule, inst, c.effPos(e), "kept as an opaque unsigned value that is only compared (not erased by the shape arithmetic)")
					continue
				}
				if inRange {
					seen[inst] = true
					c.proved(rule, inst, c.effPos(e), fmt.Sprintf("operand implied within [%s, %s]", lo, hi))
				} else {
					seen[inst] = true
					c.refuted(rule, inst, c.effPos(e), fmt.Sprintf("%s: the operand %s is not implied to lie in [%s, %s], so the stored value can differ from the one the shape arithmetic assumes (path: %s)", e.Note, pretty(canon(e.Idx)), lo, hi, factsBrief(e.Facts)),
						"a value outside the target range, e.g. "+new(big.Int).Add(hi, big.NewInt(1)).String())
				}
			}
		}
	}
	c.Extra[rule+" value-changing integer conversions examined"] = nSites
}

// sizeofRange bounds a polynomial that is linear in sizeof(T) atoms (each between 1 and 16).
func sizeofRange(p *Poly) (*big.Int, *big.Int, bool) {
	mn, mx := new(big.Int), new(big.Int)
	for _, mo := range p.m {
		switch len(mo.factors) {
		case 0:
			mn.Add(mn, mo.coef)
			mx.Add(mx, mo.coef)
		case 1:
			a := mo.factors[0]
			if a.Op != OpAtom || !strings.HasPrefix(a.Name, "sizeof(") {
				return nil, nil, false
			}
			lo, hi := new(big.Int).Set(mo.coef), new(big.Int).Mul(mo.coef, big.NewInt(16))
			if lo.Cmp(hi) > 0 {
				lo, hi = hi, lo
			}
			mn.Add(mn, lo)
			mx.Add(mx, hi)
		default:
			return nil, nil, false
		}
	}
	return mn, mx, true
}

// narrowInRange: is the operand of a value-changing integer conversion implied to lie in the target type's range?
// The operand's own type bounds count (an int converted to uint64 only needs to be non-negative).
func narrowInRange(e *Effect) (bool, *big.Int, *big.Int) {
	to := kindOf(e.Typ)
	lo, hi := to.minMax()
	from := kindOf(e.Idx.Typ)
	f := e.Facts.clone()
	p := normInt(e.Idx)
	if from.OK {
		flo, fhi := from.minMax()
		f.add(Cond{Kind: CGE0, P: p.Sub(polyConst(flo))})
		f.add(Cond{Kind: CGE0, P: polyConst(fhi).Sub(p)})
	}
	// len/cap of slices and element sizes
	e.Idx.walk(func(x *Term) bool {
		if x.Op == OpAtom && strings.HasPrefix(x.Name, "sizeof(") {
			f.add(Cond{Kind: CGE0, P: polyAtom(x).AddInt(-1)})
			f.add(Cond{Kind: CGE0, P: polyConst(big.NewInt(16)).Sub(polyAtom(x))})
		}
		if x.Op == OpAtom && (strings.HasPrefix(x.Name, "len(") || strings.HasPrefix(x.Name, "cap(")) {
			f.add(Cond{Kind: CGE0, P: polyAtom(x)})
		}
		return true
	})
	inRange := f.impliesGE0(p.Sub(polyConst(lo))) && f.impliesGE0(polyConst(hi).Sub(p))
	if !inRange {
		// linear in element sizes (1..16 bytes): evaluate the extremes
		if mn, mx, ok := sizeofRange(p); ok && mn.Cmp(lo) >= 0 && mx.Cmp(hi) <= 0 {
			inRange = true
		}
	}
	return inRange, lo, hi
}

// headerLayout: where a Buffer header keeps its samples, channel count and bit depth. The names are discovered per
// loaded tree (loader.go: probes b.Channels(), b.BitDepth() and the one slice-typed field), so that moving the
// properties into an embedded struct or renaming a field does not change what the rules talk about.
type headerLayout struct {
	data, ch, depth []string // field-name paths from the Buffer struct
}

var hdrLayout = &headerLayout{data: []string{"data"}, ch: []string{"channels"}, depth: []string{"bitDepth"}}

func (h *headerLayout) dataSuffix() string  { return "." + strings.Join(h.data, ".") }
func (h *headerLayout) chSuffix() string    { return "." + strings.Join(h.ch, ".") }
func (h *headerLayout) depthSuffix() string { return "." + strings.Join(h.depth, ".") }

// indexPath resolves a field-name path inside a struct type (through nested structs).
func indexPath(t types.Type, names []string) []int {
	var out []int
	for _, n := range names {
		st, ok := t.Underlying().(*types.Struct)
		if !ok {
			return nil
		}
		found := false
		for i := 0; i < st.NumFields(); i++ {
			if st.Field(i).Name() == n {
				out = append(out, i)
				t = st.Field(i).Type()
				found = true
				break
			}
		}
		if !found {
			return nil
		}
	}
	return out
}

// slicePath finds the unique slice-typed field of a struct (searching embedded structs), as a name path.
func slicePath(t types.Type) []string {
	st, ok := t.Underlying().(*types.Struct)
	if !ok {
		return nil
	}
	var found []string
	n := 0
	for i := 0; i < st.NumFields(); i++ {
		f := st.Field(i)
		if _, isS := f.Type().Underlying().(*types.Slice); isS {
			found = []string{f.Name()}
			n++
		} else if _, isSt := f.Type().Underlying().(*types.Struct); isSt {
			if sub := slicePath(f.Type()); sub != nil {
				found = append([]string{f.Name()}, sub...)
				n++
			}
		}
	}
	if n != 1 {
		return nil
	}
	return found
}

func pathEq(a, b []int) bool {
	if len(a) != len(b) {
		return false
	}
	for i := range a {
		if a[i] != b[i] {
			return false
		}
	}
	return true
}

// pathTouches: a store at path a writes (part of, or all of, or a struct containing) the field at path b.
func pathTouches(a, b []int) bool {
	n := len(a)
	if len(b) < n {
		n = len(b)
	}
	if n == 0 {
		return true
	}
	return pathEq(a[:n], b[:n])
}

// at returns the value of the field at the path inside a header value.
func (f *bufFields) at(v Val, path []int) Val {
	for _, i := range path {
		sv, ok := v.(StructV)
		if !ok || i < 0 || i >= len(sv.F) {
			return nil
		}
		v = sv.F[i]
	}
	return v
}
