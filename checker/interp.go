package main

// Symbolic interpreter over go/ssa (engine E3 of DESIGN.md; its path
// conditions and effect log also serve E1/E2/E5). It enumerates the acyclic
// paths of a function with static callees inlined; canonical counting loops
// are summarised by executing the body once with a symbolic iteration
// counter. Anything outside the understood idiom family is recorded as an
// EUndecided effect, which every rule treats as a failure.

import (
	"fmt"
	"go/constant"
	"go/token"
	"go/types"
	"math/big"
	"os"
	"sort"
	"strings"

	"golang.org/x/tools/go/ssa"
)

type OutKind int

const (
	ORet OutKind = iota
	OPanic
	OBack  // reached the header of the loop being summarised (internal)
	OAbort // exploration stopped at a construct outside the idiom family; the state carries the EUndecided effect
)

type Outcome struct {
	Kind     OutKind
	Ret      Val
	PanicVal Val
	St       *State
	Pos      token.Pos
	env      map[ssa.Value]Val
	from     *ssa.BasicBlock
	loop     *loopInfo
}

type loopInfo struct {
	header *ssa.BasicBlock
	blocks map[*ssa.BasicBlock]bool
}

type fnInfo struct {
	loops     map[*ssa.BasicBlock]*loopInfo // by header
	panicOnly map[*ssa.BasicBlock]bool
}

type Interp struct {
	prog      *ssa.Program
	pkg       *ssa.Package
	sizes     types.Sizes
	fset      *token.FileSet
	nextID    int
	infos     map[*ssa.Function]*fnInfo
	entryObjs map[string]*Object
	entryStor map[string]*Storage
	assume    map[string]*Term
	maxDepth  int
	maxPaths  int
	npaths    int
	// NoInline: callees that must not be inlined (treated as opaque calls);
	// used by rules that want call-site level facts.
	trace bool
	// discover: loops whose body is being run once with havoc'd local-object fields to find the fields the loop
	// advances (see carriedFields)
	discover map[*loopInfo]*fieldDiscovery
}

func newInterp(prog *ssa.Program, pkg *ssa.Package, sizes types.Sizes) *Interp {
	return &Interp{prog: prog, pkg: pkg, sizes: sizes, fset: prog.Fset, infos: map[*ssa.Function]*fnInfo{},
		entryObjs: map[string]*Object{}, entryStor: map[string]*Storage{}, assume: map[string]*Term{}, maxDepth: 12, maxPaths: 4000}
}

func (ip *Interp) id() int { ip.nextID++; return ip.nextID }

type frame struct {
	fn     *ssa.Function
	env    map[ssa.Value]Val
	depth  int
	stack  []*ssa.Function
	sites  []token.Pos // call-site positions of the inlining stack
	active []*loopInfo
	info   *fnInfo
	tsub   map[*types.TypeParam]types.Type // type arguments of the instantiation this frame was entered through
}

func (fr *frame) fork() *frame {
	n := *fr
	n.env = make(map[ssa.Value]Val, len(fr.env))
	for k, v := range fr.env {
		n.env[k] = v
	}
	n.active = append([]*loopInfo{}, fr.active...)
	return &n
}

func (ip *Interp) info(fn *ssa.Function) *fnInfo {
	if in, ok := ip.infos[fn]; ok {
		return in
	}
	in := &fnInfo{loops: map[*ssa.BasicBlock]*loopInfo{}, panicOnly: map[*ssa.BasicBlock]bool{}}
	// natural loops
	for _, b := range fn.Blocks {
		for _, s := range b.Succs {
			if s.Dominates(b) { // back edge b -> s
				lp := in.loops[s]
				if lp == nil {
					lp = &loopInfo{header: s, blocks: map[*ssa.BasicBlock]bool{s: true}}
					in.loops[s] = lp
				}
				var stack []*ssa.BasicBlock
				if !lp.blocks[b] {
					lp.blocks[b] = true
					stack = append(stack, b)
				}
				for len(stack) > 0 {
					x := stack[len(stack)-1]
					stack = stack[:len(stack)-1]
					for _, p := range x.Preds {
						if !lp.blocks[p] {
							lp.blocks[p] = true
							stack = append(stack, p)
						}
					}
				}
			}
		}
	}
	// panic-only blocks: every path from the block ends in panic
	changed := true
	for _, b := range fn.Blocks {
		if len(b.Instrs) > 0 {
			if _, ok := b.Instrs[len(b.Instrs)-1].(*ssa.Panic); ok {
				in.panicOnly[b] = true
			}
		}
	}
	for changed {
		changed = false
		for _, b := range fn.Blocks {
			if in.panicOnly[b] || len(b.Succs) == 0 {
				continue
			}
			all := true
			for _, s := range b.Succs {
				if !in.panicOnly[s] {
					all = false
				}
			}
			if all {
				in.panicOnly[b] = true
				changed = true
			}
		}
	}
	ip.infos[fn] = in
	return in
}

// ---------- symbolic entry values ----------

func (ip *Interp) entryObject(name string, typ types.Type, kind ObjKind, root string) *Object {
	if o, ok := ip.entryObjs[name]; ok {
		return o
	}
	o := &Object{ID: ip.id(), Name: name, Kind: kind, Typ: typ, Root: root}
	ip.entryObjs[name] = o
	return o
}

func (ip *Interp) entryStorage(name string, elem types.Type) *Storage {
	if s, ok := ip.entryStor[name]; ok {
		return s
	}
	s := &Storage{ID: ip.id(), Name: name, Kind: SEntry, Elem: elem}
	ip.entryStor[name] = s
	return s
}

// atom returns the integer entry atom called name, or its assumed value.
func (ip *Interp) atom(name string) *Term {
	if a, ok := ip.assume[name]; ok {
		return a
	}
	return mkAtom(name, intT)
}

// symVal builds the symbolic value of an entry location called name.
func (ip *Interp) symVal(name string, typ types.Type, kind ObjKind, root string, st *State) Val {
	if a, ok := ip.assume[name]; ok {
		return a
	}
	switch u := typ.Underlying().(type) {
	case *types.Basic:
		if u.Kind() == types.UnsafePointer {
			return OpaqueV{Name: name, Typ: typ}
		}
		return mkAtom(name, typ)
	case *types.Struct:
		sv := StructV{Typ: typ, F: make([]Val, u.NumFields())}
		for i := 0; i < u.NumFields(); i++ {
			sv.F[i] = ip.symVal(name+"."+u.Field(i).Name(), u.Field(i).Type(), kind, root, st)
		}
		return sv
	case *types.Slice:
		ln, cp := ip.atom("len("+name+")"), ip.atom("cap("+name+")")
		if st != nil {
			st.facts.add(Cond{Kind: CGE0, P: normInt(ln), Tag: "axiom"})
			st.facts.add(Cond{Kind: CGE0, P: normInt(cp).Sub(normInt(ln)), Tag: "axiom"})
		}
		return SliceV{Stor: ip.entryStorage(name, u.Elem()), Off: mkInt(0, intT), Len: ln, Cap: cp, Elem: u.Elem()}
	case *types.Pointer:
		return PtrV{Obj: ip.entryObject("*"+name, u.Elem(), kind, root), Typ: u.Elem()}
	case *types.Interface:
		if _, ok := typ.(*types.TypeParam); ok {
			return mkAtom(name, typ)
		}
		return IfaceV{Dyn: OpaqueV{Name: name, Typ: typ}, DynT: nil}
	case *types.Array:
		if u.Len() <= 16 {
			av := ArrayV{Typ: typ, E: make([]Val, u.Len())}
			for i := range av.E {
				av.E[i] = ip.symVal(fmt.Sprintf("%s[%d]", name, i), u.Elem(), kind, root, st)
			}
			return av
		}
	}
	return OpaqueV{Name: name, Typ: typ}
}

func (ip *Interp) zeroVal(typ types.Type) Val {
	if _, ok := typ.(*types.TypeParam); ok {
		return mkConst(constant.MakeInt64(0), typ)
	}
	switch u := typ.Underlying().(type) {
	case *types.Basic:
		switch {
		case u.Info()&types.IsBoolean != 0:
			return mkBool(false)
		case u.Info()&types.IsString != 0:
			return mkConst(constant.MakeString(""), typ)
		case u.Info()&types.IsFloat != 0:
			return mkFloat(0, typ)
		case u.Info()&types.IsNumeric != 0:
			return mkInt(0, typ)
		}
		return OpaqueV{Name: "zero", Typ: typ}
	case *types.Struct:
		sv := StructV{Typ: typ, F: make([]Val, u.NumFields())}
		for i := range sv.F {
			sv.F[i] = ip.zeroVal(u.Field(i).Type())
		}
		return sv
	case *types.Array:
		if u.Len() <= 64 {
			av := ArrayV{Typ: typ, E: make([]Val, u.Len())}
			for i := range av.E {
				av.E[i] = ip.zeroVal(u.Elem())
			}
			return av
		}
		return OpaqueV{Name: "zero-array", Typ: typ}
	case *types.Slice:
		return SliceV{Nil: true, Off: mkInt(0, intT), Len: mkInt(0, intT), Cap: mkInt(0, intT), Elem: u.Elem()}
	case *types.Pointer:
		return PtrV{Nil: true, Typ: u.Elem()}
	case *types.Interface:
		return IfaceV{Nil: true}
	}
	return OpaqueV{Name: "zero", Typ: typ}
}

// ---------- memory ----------

func (ip *Interp) content(o *Object, st *State) Val {
	if v, ok := st.mem[o]; ok {
		return v
	}
	var v Val
	switch o.Kind {
	case OFresh:
		v = ip.zeroVal(o.Typ)
	default:
		name := o.Name
		if strings.HasPrefix(name, "*") {
			name = name[1:]
		}
		v = ip.symVal(name, o.Typ, o.Kind, o.Root, st)
	}
	st.mem[o] = v
	return v
}

func getPath(v Val, path []int) (Val, bool) {
	for _, i := range path {
		switch x := v.(type) {
		case StructV:
			if i >= len(x.F) {
				return nil, false
			}
			v = x.F[i]
		case ArrayV:
			if i >= len(x.E) {
				return nil, false
			}
			v = x.E[i]
		default:
			return nil, false
		}
	}
	return v, true
}

func setPath(v Val, path []int, nv Val) (Val, bool) {
	if len(path) == 0 {
		return nv, true
	}
	switch x := v.(type) {
	case StructV:
		if path[0] >= len(x.F) {
			return nil, false
		}
		c := StructV{Typ: x.Typ, F: append([]Val{}, x.F...)}
		r, ok := setPath(x.F[path[0]], path[1:], nv)
		if !ok {
			return nil, false
		}
		c.F[path[0]] = r
		return c, true
	case ArrayV:
		if path[0] >= len(x.E) {
			return nil, false
		}
		c := ArrayV{Typ: x.Typ, E: append([]Val{}, x.E...)}
		r, ok := setPath(x.E[path[0]], path[1:], nv)
		if !ok {
			return nil, false
		}
		c.E[path[0]] = r
		return c, true
	}
	return nil, false
}

func mayAliasTypes(a, b types.Type) bool {
	if types.Identical(a, b) {
		return true
	}
	_, ta := a.(*types.TypeParam)
	_, tb := b.(*types.TypeParam)
	if ta || tb {
		return true
	}
	na, oka := a.(*types.Named)
	nb, okb := b.(*types.Named)
	if oka && okb && na.Origin() == nb.Origin() {
		aa, ab := na.TypeArgs(), nb.TypeArgs()
		if aa.Len() != ab.Len() {
			return false
		}
		for i := 0; i < aa.Len(); i++ {
			if !mayAliasTypes(aa.At(i), ab.At(i)) {
				return false
			}
		}
		return true
	}
	return false
}

func (ip *Interp) undecided(st *State, fr *frame, pos token.Pos, why string) {
	var fn *ssa.Function
	var stack []*ssa.Function
	var sites []token.Pos
	if fr != nil {
		fn, stack, sites = fr.fn, fr.stack, fr.sites
	}
	st.addEffect(&Effect{Kind: EUndecided, Pos: pos, Fn: fn, Stack: stack, Sites: sites, Note: why})
}

func (ip *Interp) load(p PtrV, st *State, fr *frame, pos token.Pos) Val {
	if p.Nil {
		ip.undecided(st, fr, pos, "load through nil pointer")
		return UnknownV{Why: "nil deref", Typ: p.Typ}
	}
	if p.Stor != nil {
		return ip.loadElem(p.Stor, p.Idx, st, fr, pos)
	}
	if p.Obj == nil {
		ip.undecided(st, fr, pos, "load through unknown pointer")
		return UnknownV{Why: "unknown pointer", Typ: p.Typ}
	}
	// alias hazard: another parameter-reached object of a unifiable type had this path stored
	hazard := ""
	if p.Obj.Kind == OParam || p.Obj.Kind == OOpaque {
		pk := pathString(p.Path)
		for _, hs := range st.hdrStores {
			if hs.obj != p.Obj && mayAliasTypes(hs.obj.Typ, p.Obj.Typ) && (strings.HasPrefix(pk, hs.path) || strings.HasPrefix(hs.path, pk)) {
				hazard = fmt.Sprintf("%s%s is read after a store to %s%s, which may be the same object", p.Obj.Name, pk, hs.obj.Name, hs.path)
				break
			}
		}
	}
	v, ok := getPath(ip.content(p.Obj, st), p.Path)
	if !ok {
		ip.undecided(st, fr, pos, "load: bad path")
		return UnknownV{Why: "bad path", Typ: p.Typ}
	}
	if hazard != "" {
		if sv, ok := v.(SliceV); ok {
			// the elements below the old length are unaffected; only a later
			// use of len/cap is a hazard (recorded where it happens)
			sv.Stale = hazard
			return sv
		}
		st.addEffect(&Effect{Kind: EHazard, Pos: pos, Fn: fr.fn, Stack: fr.stack, Sites: fr.sites, Obj: p.Obj, Path: p.Path, Note: hazard})
	}
	return v
}

// closureEscapes records the heap allocation of a capturing closure at the point where it escapes.
func (ip *Interp) closureEscapes(v Val, st *State, fr *frame, pos token.Pos) {
	switch x := v.(type) {
	case ClosureV:
		if len(x.Bind) > 0 {
			st.addEffect(&Effect{Kind: EAlloc, Pos: pos, Fn: fr.fn, Stack: fr.stack, Sites: fr.sites, Note: "closure with captured variables escapes", Val: x})
		}
	case IfaceV:
		if x.Dyn != nil {
			ip.closureEscapes(x.Dyn, st, fr, pos)
		}
	case StructV:
		for _, f := range x.F {
			ip.closureEscapes(f, st, fr, pos)
		}
	case TupleV:
		for _, f := range x.E {
			ip.closureEscapes(f, st, fr, pos)
		}
	}
}

func (ip *Interp) staleUse(sv SliceV, what string, st *State, fr *frame, pos token.Pos) {
	if sv.Stale != "" && sv.LenFresh && (what == "len" || what == "copy" || what == "clear") {
		return // only the length is used, and it was set explicitly
	}
	if sv.Stale != "" {
		st.addEffect(&Effect{Kind: EHazard, Pos: pos, Fn: fr.fn, Stack: fr.stack, Sites: fr.sites, Note: what + " of a slice header that " + sv.Stale})
	}
}

func (ip *Interp) loadElem(s *Storage, idx *Term, st *State, fr *frame, pos token.Pos) Val {
	if s.Kind == SArrayObj {
		if c, ok := normInt(idx).IsConst(); ok && c.IsInt64() {
			v, ok := getPath(ip.content(s.Obj, st), []int{int(c.Int64())})
			if ok {
				return v
			}
		}
		ip.undecided(st, fr, pos, "non-constant index into a local array")
		return UnknownV{Why: "array index", Typ: s.Elem}
	}
	switch u := s.Elem.Underlying().(type) {
	case *types.Slice:
		ci := canon(idx)
		name := fmt.Sprintf("%s[%s]", s.Name, pretty(ci))
		ln, cp := ip.atom("len("+name+")"), ip.atom("cap("+name+")")
		st.facts.add(Cond{Kind: CGE0, P: normInt(ln), Tag: "axiom"})
		st.facts.add(Cond{Kind: CGE0, P: normInt(cp).Sub(normInt(ln)), Tag: "axiom"})
		es := ip.entryStorage(name, u.Elem())
		es.Parent, es.ParentIdx = s, ci
		return SliceV{Stor: es, Off: mkInt(0, intT), Len: ln, Cap: cp, Elem: u.Elem()}
	case *types.Basic:
		return &Term{Op: OpElem, Typ: s.Elem, Stor: s, Args: []*Term{idx}, Seq: len(st.effects), Pos: pos}
	}
	if _, ok := s.Elem.(*types.TypeParam); ok {
		return &Term{Op: OpElem, Typ: s.Elem, Stor: s, Args: []*Term{idx}, Seq: len(st.effects), Pos: pos}
	}
	ip.undecided(st, fr, pos, "element load of unsupported type "+typeKey(s.Elem))
	return UnknownV{Why: "elem type", Typ: s.Elem}
}

func (ip *Interp) store(p PtrV, v Val, st *State, fr *frame, pos token.Pos) {
	if p.Nil || (p.Stor == nil && p.Obj == nil) {
		ip.undecided(st, fr, pos, "store through nil/unknown pointer")
		return
	}
	if p.Stor != nil {
		if p.Stor.Kind == SArrayObj {
			if c, ok := normInt(p.Idx).IsConst(); ok && c.IsInt64() {
				nv, ok := setPath(ip.content(p.Stor.Obj, st), []int{int(c.Int64())}, v)
				if ok {
					st.mem[p.Stor.Obj] = nv
					return
				}
			}
			ip.undecided(st, fr, pos, "non-constant store into a local array")
			return
		}
		st.addEffect(&Effect{Kind: EStoreElem, Pos: pos, Fn: fr.fn, Stack: fr.stack, Sites: fr.sites, Stor: p.Stor, Idx: p.Idx, Val: v})
		return
	}
	nv, ok := setPath(ip.content(p.Obj, st), p.Path, v)
	if !ok {
		ip.undecided(st, fr, pos, "store: bad path")
		return
	}
	ip.closureEscapes(v, st, fr, pos)
	st.mem[p.Obj] = nv
	if p.Obj.Kind != OFresh {
		st.addEffect(&Effect{Kind: EStoreField, Pos: pos, Fn: fr.fn, Stack: fr.stack, Sites: fr.sites, Obj: p.Obj, Path: p.Path, Val: v})
		st.hdrStores = append(st.hdrStores, hdrStore{p.Obj, pathString(p.Path)})
	} else if len(st.loops) > 0 {
		// a store into a local object inside a summarised loop body would make
		// the one-iteration summary unsound for the object's state
		if p.Obj.LoopID != st.loops[len(st.loops)-1].ID {
			allowed := len(ip.discover) > 0
			for _, lc := range st.loops {
				if lc.Carried[p.Obj] {
					allowed = true
				}
			}
			if !allowed {
				ip.undecided(st, fr, pos, "store to a local object inside a loop body")
			}
		}
	}
}

// ---------- running ----------

type Summary struct {
	Fn       *ssa.Function
	Params   []Val
	Outcomes []Outcome
	Init     *State
}

// Run explores fn from a symbolic entry state.
func (ip *Interp) Run(fn *ssa.Function) *Summary {
	ip.npaths = 0
	ip.entryObjs = map[string]*Object{}
	ip.entryStor = map[string]*Storage{}
	st := newState()
	fr := &frame{fn: fn, env: map[ssa.Value]Val{}, info: ip.info(fn), stack: []*ssa.Function{fn}}
	sum := &Summary{Fn: fn, Init: st}
	for _, p := range fn.Params {
		v := ip.symVal(p.Name(), p.Type(), OParam, p.Name(), st)
		fr.env[p] = v
		sum.Params = append(sum.Params, v)
	}
	for _, fv := range fn.FreeVars {
		// a free variable is a pointer to the captured variable
		pt, _ := fv.Type().Underlying().(*types.Pointer)
		if pt != nil {
			o := ip.entryObject("*"+fv.Name(), pt.Elem(), OFreeVar, fv.Name())
			fr.env[fv] = PtrV{Obj: o, Typ: pt.Elem()}
		} else {
			fr.env[fv] = ip.symVal(fv.Name(), fv.Type(), OFreeVar, fv.Name(), st)
		}
	}
	if len(fn.Blocks) == 0 {
		return sum
	}
	sum.Outcomes = ip.execFrom(fr, fn.Blocks[0], 0, nil, st)
	return sum
}

func (ip *Interp) execFrom(fr *frame, b *ssa.BasicBlock, idx int, pred *ssa.BasicBlock, st *State) []Outcome {
	for {
		if idx == 0 {
			// phis
			var phivals []Val
			var phis []*ssa.Phi
			for _, in := range b.Instrs {
				phi, ok := in.(*ssa.Phi)
				if !ok {
					break
				}
				pi := -1
				for i, p := range b.Preds {
					if p == pred {
						pi = i
					}
				}
				if pi < 0 {
					ip.undecided(st, fr, phi.Pos(), "phi without predecessor")
					phivals = append(phivals, UnknownV{Why: "phi"})
				} else {
					phivals = append(phivals, ip.value(fr, phi.Edges[pi], st))
				}
				phis = append(phis, phi)
			}
			for i, phi := range phis {
				fr.env[phi] = phivals[i]
			}
			idx = len(phis)
		}
		for ; idx < len(b.Instrs); idx++ {
			in := b.Instrs[idx]
			switch x := in.(type) {
			case *ssa.If:
				return ip.execIf(fr, b, x, st)
			case *ssa.Jump:
				return ip.enter(fr, b, b.Succs[0], st)
			case *ssa.Return:
				var ret Val
				switch len(x.Results) {
				case 0:
				case 1:
					ret = ip.value(fr, x.Results[0], st)
				default:
					tv := TupleV{}
					for _, r := range x.Results {
						tv.E = append(tv.E, ip.value(fr, r, st))
					}
					ret = tv
				}
				ip.npaths++
				if fr.depth == 0 {
					ip.closureEscapes(ret, st, fr, x.Pos())
				}
				return []Outcome{{Kind: ORet, Ret: ret, St: st, Pos: x.Pos()}}
			case *ssa.Panic:
				ip.npaths++
				return []Outcome{{Kind: OPanic, PanicVal: ip.value(fr, x.X, st), St: st, Pos: x.Pos()}}
			case ssa.CallInstruction:
				if _, isGo := in.(*ssa.Go); isGo {
					ip.undecided(st, fr, in.Pos(), "go statement")
					continue
				}
				if _, isDefer := in.(*ssa.Defer); isDefer {
					ip.undecided(st, fr, in.Pos(), "defer statement")
					continue
				}
				outs := ip.call(fr, x, st)
				if len(outs) == 1 && outs[0].Kind == ORet {
					if v, ok := in.(ssa.Value); ok {
						fr.env[v] = outs[0].Ret
					}
					st = outs[0].St
					continue
				}
				var res []Outcome
				for _, o := range outs {
					if o.Kind != ORet {
						res = append(res, o)
						continue
					}
					nf := fr.fork()
					if v, ok := in.(ssa.Value); ok {
						nf.env[v] = o.Ret
					}
					res = append(res, ip.execFrom(nf, b, idx+1, pred, o.St)...)
				}
				return res
			default:
				ip.step(fr, in, st)
			}
		}
		ip.undecided(st, fr, token.NoPos, "block without terminator")
		return []Outcome{{Kind: OAbort, St: st}}
	}
}

func (ip *Interp) execIf(fr *frame, b *ssa.BasicBlock, x *ssa.If, st *State) []Outcome {
	cv := ip.value(fr, x.Cond, st)
	ct, ok := cv.(*Term)
	if !ok {
		ip.undecided(st, fr, x.Pos(), "non-scalar branch condition")
		ct = mkUnknown("cond", types.Typ[types.Bool])
	}
	c := condOf(ct, false)
	c.Orig = ct
	if c.Pos == token.NoPos {
		c.Pos = x.Cond.Pos()
	}
	switch st.facts.eval(c) {
	case Yes:
		return ip.enter(fr, b, b.Succs[0], st)
	case No:
		return ip.enter(fr, b, b.Succs[1], st)
	}
	if ip.npaths > ip.maxPaths {
		ip.undecided(st, fr, x.Pos(), "path budget exhausted")
		return []Outcome{{Kind: OAbort, St: st}}
	}
	if outs, ok := ip.ifConvert(fr, b, ct, st); ok {
		return outs
	}
	st2 := st.clone()
	fr2 := fr.fork()
	st.facts.add(c)
	st2.facts.add(c.Not())
	outs := ip.enter(fr, b, b.Succs[0], st)
	outs = append(outs, ip.enter(fr2, b, b.Succs[1], st2)...)
	return outs
}

// ifConvert handles the triangle/diamond whose arms are empty blocks that
// only select values for the phis of the join (e.g. `if x > acc { acc = x }`):
// the phis become if-then-else terms and the path is not forked.
func (ip *Interp) ifConvert(fr *frame, b *ssa.BasicBlock, cond *Term, st *State) ([]Outcome, bool) {
	// an arm may hold pure value computations (arithmetic without division, len/cap, changes of type):
	// they are evaluated speculatively, which cannot fail or have an effect
	emptyJump := func(x *ssa.BasicBlock) *ssa.BasicBlock {
		if len(x.Preds) != 1 || len(x.Instrs) == 0 || len(x.Instrs) > 6 {
			return nil
		}
		if _, ok := x.Instrs[len(x.Instrs)-1].(*ssa.Jump); !ok {
			return nil
		}
		for _, in := range x.Instrs[:len(x.Instrs)-1] {
			switch y := in.(type) {
			case *ssa.DebugRef, *ssa.ChangeType:
			case *ssa.BinOp:
				if y.Op == token.QUO || y.Op == token.REM || y.Op == token.SHL || y.Op == token.SHR {
					return nil
				}
			case *ssa.UnOp:
				if y.Op != token.SUB && y.Op != token.NOT && y.Op != token.XOR {
					return nil
				}
			case *ssa.Call:
				b, ok := y.Call.Value.(*ssa.Builtin)
				if !ok || (b.Name() != "len" && b.Name() != "cap") {
					return nil
				}
			default:
				return nil
			}
		}
		return x.Succs[0]
	}
	runArm := func(x *ssa.BasicBlock) bool {
		for _, in := range x.Instrs[:len(x.Instrs)-1] {
			if cl, ok := in.(*ssa.Call); ok {
				n := len(st.effects)
				outs := ip.call(fr, cl, st)
				if len(outs) != 1 || outs[0].Kind != ORet || len(outs[0].St.effects) != n {
					return false
				}
				fr.env[cl] = outs[0].Ret
				continue
			}
			ip.step(fr, in, st)
		}
		return true
	}
	s0, s1 := b.Succs[0], b.Succs[1]
	var join, p0, p1 *ssa.BasicBlock
	switch {
	case emptyJump(s0) != nil && emptyJump(s0) == s1:
		join, p0, p1 = s1, s0, b
	case emptyJump(s1) != nil && emptyJump(s1) == s0:
		join, p0, p1 = s0, b, s1
	case emptyJump(s0) != nil && emptyJump(s0) == emptyJump(s1):
		join, p0, p1 = emptyJump(s0), s0, s1
	default:
		return nil, false
	}
	if fr.info.loops[join] != nil || len(join.Preds) != 2 {
		return nil, false
	}
	i0, i1 := -1, -1
	for i, p := range join.Preds {
		if p == p0 {
			i0 = i
		}
		if p == p1 {
			i1 = i
		}
	}
	if i0 < 0 || i1 < 0 || i0 == i1 {
		return nil, false
	}
	nEff := len(st.effects)
	if p0 != b && !runArm(p0) {
		return nil, false
	}
	if p1 != b && !runArm(p1) {
		return nil, false
	}
	if len(st.effects) != nEff {
		st.effects = st.effects[:nEff] // speculative staleness notes etc. are dropped; the fork below re-creates them
		return nil, false
	}
	vals := map[*ssa.Phi]Val{}
	n := 0
	for _, in := range join.Instrs {
		phi, ok := in.(*ssa.Phi)
		if !ok {
			break
		}
		n++
		a, okA := ip.value(fr, phi.Edges[i0], st).(*Term)
		c, okC := ip.value(fr, phi.Edges[i1], st).(*Term)
		if !okA || !okC {
			return nil, false
		}
		vals[phi] = mkIte(cond, a, c)
	}
	if n == 0 {
		return nil, false
	}
	for phi, v := range vals {
		fr.env[phi] = v
	}
	if len(fr.active) > 0 {
		cur := fr.active[len(fr.active)-1]
		if !cur.blocks[join] && !fr.info.panicOnly[join] {
			return nil, false
		}
	}
	return ip.execFrom(fr, join, n, p1, st), true
}

// enter transfers control from block b to successor s.
func (ip *Interp) enter(fr *frame, b, s *ssa.BasicBlock, st *State) []Outcome {
	if lp := fr.info.loops[s]; lp != nil {
		for i := len(fr.active) - 1; i >= 0; i-- {
			if fr.active[i] == lp {
				if i != len(fr.active)-1 {
					ip.undecided(st, fr, token.NoPos, "jump to the header of an outer loop")
				}
				return []Outcome{{Kind: OBack, St: st, env: fr.env, from: b, loop: lp}}
			}
		}
		return ip.execLoop(fr, lp, b, st)
	}
	if n := len(fr.active); n > 0 {
		cur := fr.active[n-1]
		if !cur.blocks[s] && !fr.info.panicOnly[s] && !endsInReturn(s) {
			// a break: the path goes on behind the loop from the middle of some iteration. Like a return from inside
			// the loop (see the merge in execLoop) it is kept for the may-effect rules only.
			// (a block that returns is handled by the loop merge alone: the outcome is marked there)
			st.addEffect(&Effect{Kind: EUndecided, Early: true, Pos: firstPos(s), Fn: fr.fn, Stack: fr.stack, Sites: fr.sites, Note: "loop left other than through its header test"})
		}
	}
	return ip.execFrom(fr, s, 0, b, st)
}

func endsInReturn(b *ssa.BasicBlock) bool {
	if len(b.Instrs) == 0 {
		return false
	}
	_, ok := b.Instrs[len(b.Instrs)-1].(*ssa.Return)
	return ok
}

func firstPos(b *ssa.BasicBlock) token.Pos {
	for _, in := range b.Instrs {
		if in.Pos() != token.NoPos {
			return in.Pos()
		}
	}
	return token.NoPos
}

// substK evaluates a header value at iteration 0 (used when the loop body never runs).
func substK(v Val, k *Term) Val {
	t, ok := v.(*Term)
	if !ok {
		return v
	}
	return t.subst(map[string]*Term{k.Name: mkInt(0, intT)})
}

type carried struct {
	phi  *ssa.Phi
	init Val
	atom *Term
}

func (ip *Interp) execLoop(fr *frame, lp *loopInfo, pred *ssa.BasicBlock, st *State) []Outcome {
	h := lp.header
	ctx := &LoopCtx{ID: ip.id(), Fn: fr.fn, Pos: firstPos(h)}
	ctx.K = &Term{Op: OpAtom, Name: fmt.Sprintf("k%d", ctx.ID), Typ: intT, Loop: ctx}
	pi := -1
	for i, p := range h.Preds {
		if p == pred {
			pi = i
		}
	}
	fail := func(why string) []Outcome {
		ip.undecided(st, fr, ctx.Pos, "non-canonical loop: "+why)
		return []Outcome{{Kind: OAbort, St: st}}
	}
	if pi < 0 {
		return fail("entry edge not found")
	}
	bfr := fr.fork()
	var car []carried
	var ivs, affine, sliceIVs []*ssa.Phi
	nphi := 0
	for _, in := range h.Instrs {
		phi, ok := in.(*ssa.Phi)
		if !ok {
			break
		}
		nphi++
		init := ip.value(fr, phi.Edges[pi], st)
		isIV, unchanged := true, true
		for i, e := range phi.Edges {
			if !lp.blocks[h.Preds[i]] {
				continue
			}
			if e != ssa.Value(phi) {
				unchanged = false
			}
			bo, ok := e.(*ssa.BinOp)
			if !ok || bo.Op != token.ADD {
				isIV = false
				continue
			}
			c1, ok1 := bo.Y.(*ssa.Const)
			c2, ok2 := bo.X.(*ssa.Const)
			switch {
			case bo.X == ssa.Value(phi) && ok1 && c1.Value != nil && constant.Compare(c1.Value, token.EQL, constant.MakeInt64(1)):
			case bo.Y == ssa.Value(phi) && ok2 && c2.Value != nil && constant.Compare(c2.Value, token.EQL, constant.MakeInt64(1)):
			default:
				isIV = false
			}
		}
		it, isTerm := init.(*Term)
		// affine induction variable with a loop-invariant step: phi + s on every back edge
		var step ssa.Value
		stepNeg, stepSeen := false, false
		if !isIV && !unchanged && isTerm && isIntLike(phi.Type()) {
			okStep := true
			for i, e := range phi.Edges {
				if !lp.blocks[h.Preds[i]] {
					continue
				}
				bo, ok := e.(*ssa.BinOp)
				if !ok || (bo.Op != token.ADD && bo.Op != token.SUB) {
					okStep = false
					break
				}
				var s ssa.Value
				switch {
				case bo.X == ssa.Value(phi):
					s = bo.Y
				case bo.Y == ssa.Value(phi) && bo.Op == token.ADD:
					s = bo.X
				default:
					okStep = false
				}
				if okStep && stepSeen && (bo.Op == token.SUB) != stepNeg {
					okStep = false
				}
				stepNeg, stepSeen = bo.Op == token.SUB, true
				if !okStep {
					break
				}
				if in, isInstr := s.(ssa.Instruction); isInstr && lp.blocks[in.Block()] {
					okStep = false // the step is computed inside the loop
					break
				}
				if step != nil && step != s {
					okStep = false
					break
				}
				step = s
			}
			if !okStep {
				step = nil
			}
		}
		// slice-walking: s = s[c:] on every back edge, with a loop-invariant constant step c >= 1
		if sv0, isSl := init.(SliceV); isSl && !unchanged && sv0.Stor != nil {
			var stepC int64 = -1
			okS := true
			for i, e := range phi.Edges {
				if !lp.blocks[h.Preds[i]] {
					continue
				}
				se, ok := e.(*ssa.Slice)
				if !ok || se.X != ssa.Value(phi) || se.High != nil || se.Max != nil || se.Low == nil {
					okS = false
					break
				}
				lc, ok := se.Low.(*ssa.Const)
				if !ok || lc.Value == nil || lc.Value.Kind() != constant.Int {
					okS = false
					break
				}
				v, exact := constant.Int64Val(lc.Value)
				if !exact || v < 1 || (stepC >= 0 && stepC != v) {
					okS = false
					break
				}
				stepC = v
			}
			if okS && stepC >= 1 {
				adv := mkBin(token.MUL, mkInt(stepC, intT), ctx.K, intT)
				nv := sv0
				nv.Off = mkBin(token.ADD, sv0.Off, adv, intT)
				nv.Len = mkBin(token.SUB, sv0.Len, adv, intT)
				nv.Cap = mkBin(token.SUB, sv0.Cap, adv, intT)
				bfr.env[phi] = nv
				sliceIVs = append(sliceIVs, phi)
				continue
			}
		}
		switch {
		case unchanged:
			bfr.env[phi] = init
		case isIV && isTerm && isIntLike(phi.Type()):
			bfr.env[phi] = mkBin(token.ADD, it, ctx.K, phi.Type())
			ivs = append(ivs, phi)
		case step != nil:
			if st, ok := ip.value(fr, step, st).(*Term); ok {
				op := token.ADD
				if stepNeg {
					op = token.SUB
				}
				bfr.env[phi] = mkBin(op, it, mkBin(token.MUL, st, ctx.K, phi.Type()), phi.Type())
				affine = append(affine, phi)
			} else {
				return fail("induction step of " + phi.Comment + " is not scalar")
			}
		case isTerm:
			a := mkAtom(fmt.Sprintf("acc%d.%s", ctx.ID, phi.Comment), phi.Type())
			bfr.env[phi] = a
			car = append(car, carried{phi, init, a})
		default:
			return fail("loop-carried value of non-scalar type (" + phi.Comment + ")")
		}
	}
	// fields of local objects that the loop advances (cursor structs): found by running the loop once with the
	// fields havoc'd (discovery), then modelled as init + step*K like any other induction variable
	disc := ip.discover[lp]
	var fivs []fieldIV
	if disc == nil {
		if cands := localLeaves(st); len(cands) > 0 {
			fivs = ip.discoverFields(fr, lp, pred, st, cands)
		}
	}
	if len(ivs) == 0 && len(affine) == 0 && len(sliceIVs) == 0 && len(fivs) == 0 && disc == nil {
		return fail("no induction variable")
	}
	// header body
	bst := st.clone()
	if len(fivs) > 0 {
		ctx.Carried = map[*Object]bool{}
		for _, fi := range fivs {
			ctx.Carried[fi.obj] = true
			if nv, ok := setPath(ip.content(fi.obj, bst), fi.path, fi.at(ctx.K)); ok {
				bst.mem[fi.obj] = nv
			}
		}
	}
	bst.loops = append(bst.loops, ctx)
	ctx.FactBase = len(bst.facts.list)
	bst.facts.add(Cond{Kind: CGE0, P: normInt(ctx.K), Tag: "loop"})
	var term *ssa.If
	for i := nphi; i < len(h.Instrs); i++ {
		in := h.Instrs[i]
		switch x := in.(type) {
		case *ssa.If:
			term = x
		case ssa.CallInstruction:
			outs := ip.call(bfr, x, bst)
			if len(outs) != 1 || outs[0].Kind != ORet {
				return fail("call with several outcomes in the loop header")
			}
			if v, ok := in.(ssa.Value); ok {
				bfr.env[v] = outs[0].Ret
			}
			bst = outs[0].St
		case *ssa.Jump, *ssa.Return, *ssa.Panic:
			return fail("loop header does not end in a test")
		default:
			ip.step(bfr, in, bst)
		}
	}
	if term == nil {
		return fail("loop header does not end in a test")
	}
	inIdx := -1
	for i, s := range h.Succs {
		if lp.blocks[s] && s != h {
			if inIdx >= 0 {
				return fail("both successors of the header test are inside the loop")
			}
			inIdx = i
		}
	}
	if inIdx < 0 {
		return fail("header test has no successor inside the loop")
	}
	cv, ok := ip.value(bfr, term.Cond, bst).(*Term)
	if !ok {
		return fail("loop test is not scalar")
	}
	c := condOf(cv, inIdx == 1)
	if disc != nil {
		// discovery run: take the body once under the loop test, whatever its form, and compare the fields
		c.Tag = "loop"
		bst.facts.add(c)
		bfr.active = append(bfr.active, lp)
		bst.body = ip.id()
		for _, o := range ip.execFrom(bfr, h.Succs[inIdx], 0, h, bst) {
			if o.Kind == OBack && o.loop == lp {
				disc.observe(o.St)
			} else if o.Kind != OPanic {
				disc.failed = true
			}
		}
		return nil
	}
	if c.Kind != CGE0 {
		return fail("loop test is not an ordering comparison: " + c.String())
	}
	coef, other := c.P.coefOf(ctx.K)
	var symStride, symRest *Poly
	if other {
		// A - s*k >= 0 with a loop-invariant symbolic stride s that the path knows to be positive
		// (`for i := 0; i+ch <= n; i += ch` behind `if ch == 0 { return }`)
		if sp, rest, ok := c.P.splitLinear(ctx.K); ok {
			neg := sp.Neg()
			accAtom := func(x *Term) bool { return x.Op == OpAtom && strings.HasPrefix(x.Name, fmt.Sprintf("acc%d.", ctx.ID)) }
			// (channel counts are non-negative: every property quantifies over channel counts >= 0)
			fs := bst.facts.clone()
			for _, mo := range neg.m {
				for _, f := range mo.factors {
					if f.Op == OpAtom && strings.HasSuffix(f.Name, hdrLayout.chSuffix()) {
						fs.add(Cond{Kind: CGE0, P: normInt(f), Tag: "axiom"})
					}
				}
			}
			if !neg.mentions(accAtom) && fs.impliesGE0(neg.AddInt(-1)) {
				symStride, symRest = neg, rest
			}
		}
		if symStride == nil {
			return fail("loop test is not of the form iv < bound: " + c.String())
		}
	} else if coef.Sign() >= 0 || !coef.IsInt64() {
		return fail("loop test is not of the form iv < bound: " + c.String())
	}
	var tripPoly *Poly
	if symStride != nil {
		num := symRest.Add(symStride)
		tripPoly = normInt(canon(&Term{Op: OpDiv, Typ: intT, Args: []*Term{num.toTerm(), symStride.toTerm()}}))
	} else if coef.Cmp(big.NewInt(-1)) == 0 {
		tripPoly = c.P.Add(normInt(ctx.K)).AddInt(1)
	} else {
		// A - s*k >= 0 with a constant stride s > 1 (a loop that consumes s elements per iteration):
		// k <= A/s, i.e. (A + s)/s iterations (truncating division: zero or negative when A + s <= 0)
		s := new(big.Int).Neg(coef)
		a := c.P.Add(normInt(ctx.K).Scale(s))
		num := a.Add(polyConst(s))
		tripPoly = normInt(canon(&Term{Op: OpDiv, Typ: intT, Args: []*Term{num.toTerm(), mkBig(s, intT)}}))
	}
	if tripPoly.mentions(func(x *Term) bool { return x.Op == OpAtom && strings.HasPrefix(x.Name, fmt.Sprintf("acc%d.", ctx.ID)) }) {
		return fail("loop bound depends on a loop-carried value")
	}
	ctx.TripPoly = tripPoly
	ctx.Trip = tripPoly.toTerm()
	c.Tag = "loop"
	if st.facts.impliesGE0(tripPoly.Neg()) {
		// the loop provably runs zero times on this path: only the header is evaluated
		post := st.clone()
		post.effects = append(post.effects, bst.effects[len(st.effects):]...)
		xfr := fr.fork()
		for _, in := range h.Instrs[:nphi] {
			phi := in.(*ssa.Phi)
			xfr.env[phi] = ip.value(fr, phi.Edges[pi], st)
		}
		for i := nphi; i < len(h.Instrs)-1; i++ {
			if v, ok := h.Instrs[i].(ssa.Value); ok {
				if r, ok := bfr.env[v]; ok {
					xfr.env[v] = substK(r, ctx.K)
				}
			}
		}
		return ip.enter(xfr, h, h.Succs[1-inIdx], post)
	}
	bst.facts.add(c)
	nBase := len(bst.effects)
	bfr.active = append(bfr.active, lp)
	bodyID := ip.id()
	bst.body = bodyID
	memBefore := snapshotMem(bst)
	nBodyFacts := len(bst.facts.list)
	outs := ip.execFrom(bfr, h.Succs[inIdx], 0, h, bst)
	// merge
	post := st.clone()
	var result []Outcome
	type backInfo struct {
		o Outcome
	}
	var backs []Outcome
	// header effects recorded before the body
	headerEffs := bst.effects[len(st.effects):nBase]
	post.effects = append(post.effects, headerEffs...)
	seen := map[*Effect]bool{}
	for _, e := range post.effects {
		seen[e] = true
	}
	for _, o := range outs {
		switch o.Kind {
		case OBack:
			if o.loop != lp {
				ip.undecided(post, fr, ctx.Pos, "non-canonical loop: back edge of another loop")
				continue
			}
			backs = append(backs, o)
			for _, fc := range o.St.facts.list {
				if fc.Tag == "axiom" {
					post.facts.add(fc)
				}
			}
			for _, e := range o.St.effects {
				if !seen[e] {
					seen[e] = true
					post.effects = append(post.effects, e)
				}
			}
			if !sameMemExcept(memBefore, o.St, ctx.Carried) {
				ip.undecided(post, fr, ctx.Pos, "non-canonical loop: the body changes a header or local object")
			}
			for _, fi := range fivs {
				got, _ := getPath(ip.content(fi.obj, o.St), fi.path)
				if valKey(canonVal(got)) != valKey(canonVal(fi.at(mkBin(token.ADD, ctx.K, mkInt(1, intT), intT)))) {
					ip.undecided(post, fr, ctx.Pos, "non-canonical loop: a cursor field does not advance by its step on every path")
				}
			}
		case OPanic, OAbort:
			result = append(result, o)
		case ORet:
			// a search loop (`for ... { if found { return ... } }`): the path leaves the function in some iteration k
			// with 0 <= k < trip (both facts are in its state) after the effects of the iterations before it, which
			// the loop effects (quantified over all iterations) over-approximate. That is exact enough for the
			// may-effect rules (who writes what, divisions, allocations, bounds) but not for the rules that compare
			// written regions: the outcome is kept and marked, and only rules that say so accept the mark.
			for _, ob := range outs {
				if ob.Kind != OBack {
					continue
				}
				for _, e := range ob.St.effects {
					if !seen[e] {
						seen[e] = true
						post.effects = append(post.effects, e)
					}
				}
			}
			est := o.St
			have := map[*Effect]bool{}
			for _, e := range est.effects {
				have[e] = true
			}
			for _, e := range post.effects {
				if !have[e] {
					est.effects = append(est.effects, e)
				}
			}
			var stack []*ssa.Function
			var sites []token.Pos
			stack, sites = fr.stack, fr.sites
			est.addEffect(&Effect{Kind: EUndecided, Early: true, Pos: ctx.Pos, Fn: fr.fn, Stack: stack, Sites: sites, Note: "non-canonical loop: return from inside the loop"})
			est.loops = append([]*LoopCtx{}, st.loops...)
			est.body = st.body
			result = append(result, o)
		default:
			ip.undecided(post, fr, ctx.Pos, "non-canonical loop: unexpected outcome inside the loop")
		}
	}
	if len(outs) == 0 {
		// body exploration failed; its undecided effects live in bst
		for _, e := range bst.effects {
			if !seen[e] {
				seen[e] = true
				post.effects = append(post.effects, e)
			}
		}
	}
	// exit environment
	xfr := fr.fork()
	// value of an induction variable after the loop: init + step*max(0, trip)
	trips := mkMinMax(OpMax, mkInt(0, intT), canon(ctx.Trip))
	for _, phi := range append(append([]*ssa.Phi{}, ivs...), affine...) {
		at, ok := bfr.env[phi].(*Term)
		if !ok {
			xfr.env[phi] = mkAtom(fmt.Sprintf("exit%d.%s", ctx.ID, phi.Comment), phi.Type())
			continue
		}
		xfr.env[phi] = at.subst(map[string]*Term{ctx.K.Name: trips})
	}
	for _, fi := range fivs {
		if nv, ok := setPath(ip.content(fi.obj, post), fi.path, fi.at(trips)); ok {
			post.mem[fi.obj] = nv
		}
	}
	for _, phi := range sliceIVs {
		if sv, ok := bfr.env[phi].(SliceV); ok {
			m := map[string]*Term{ctx.K.Name: trips}
			sv.Off, sv.Len, sv.Cap = sv.Off.subst(m), sv.Len.subst(m), sv.Cap.subst(m)
			xfr.env[phi] = sv
		}
	}
	for _, cr := range car {
		xfr.env[cr.phi] = ip.foldCarried(ctx, lp, cr, backs, nBodyFacts, post, fr)
	}
	for _, in := range h.Instrs[:nphi] {
		phi := in.(*ssa.Phi)
		if _, ok := xfr.env[phi]; !ok {
			xfr.env[phi] = bfr.env[phi]
		}
	}
	// re-evaluate header instructions for the exit
	for i := nphi; i < len(h.Instrs)-1; i++ {
		in := h.Instrs[i]
		if ci, ok := in.(ssa.CallInstruction); ok {
			outs := ip.call(xfr, ci, post)
			if len(outs) != 1 || outs[0].Kind != ORet {
				ip.undecided(post, fr, ctx.Pos, "non-canonical loop: call with several outcomes in the loop header")
				return result
			}
			if v, ok := in.(ssa.Value); ok {
				xfr.env[v] = outs[0].Ret
			}
			post = outs[0].St
			continue
		}
		ip.step(xfr, in, post)
	}
	return append(result, ip.enter(xfr, h, h.Succs[1-inIdx], post)...)
}

func snapshotMem(st *State) map[*Object]string {
	m := map[*Object]string{}
	for o, v := range st.mem {
		m[o] = valKey(v)
	}
	return m
}

func sameMem(before map[*Object]string, st *State) bool {
	for o, v := range st.mem {
		k, ok := before[o]
		if !ok {
			// object first touched inside the body: fine if it is an entry object (lazy init) or fresh array
			if o.Kind == OFresh {
				if _, isArr := o.Typ.Underlying().(*types.Array); !isArr {
					// a fresh non-array object allocated inside the body and dead at its end is harmless
					continue
				}
			}
			continue
		}
		if k != valKey(v) {
			return false
		}
	}
	return true
}

// foldCarried recognises the running max/min idiom for a loop-carried scalar.
func (ip *Interp) foldCarried(ctx *LoopCtx, lp *loopInfo, cr carried, backs []Outcome, nfacts int, post *State, fr *frame) Val {
	h := lp.header
	initT, _ := cr.init.(*Term)
	var f *Term
	kind := ""
	okAll := true
	for _, o := range backs {
		pi := -1
		for i, p := range h.Preds {
			if p == o.from {
				pi = i
			}
		}
		if pi < 0 {
			okAll = false
			break
		}
		nfr := &frame{fn: fr.fn, env: o.env, info: fr.info}
		nv, ok := ip.value(nfr, cr.phi.Edges[pi], o.St).(*Term)
		if !ok {
			okAll = false
			break
		}
		if nv.Key() == cr.atom.Key() {
			continue
		}
		// next = max(acc, f) / min(acc, f) as a term (after if-conversion)
		if cn := canon(nv); (cn.Op == OpMax || cn.Op == OpMin) && len(cn.Args) == 2 {
			var g *Term
			if cn.Args[0].Key() == cr.atom.Key() {
				g = cn.Args[1]
			} else if cn.Args[1].Key() == cr.atom.Key() {
				g = cn.Args[0]
			}
			if g != nil && !g.contains(func(x *Term) bool { return x.Key() == cr.atom.Key() }) {
				k := "max"
				if cn.Op == OpMin {
					k = "min"
				}
				if (kind != "" && kind != k) || (f != nil && f.Key() != g.Key()) {
					okAll = false
					break
				}
				kind, f = k, g
				continue
			}
		}
		if nv.contains(func(x *Term) bool { return x.Key() == cr.atom.Key() }) {
			okAll = false
			break
		}
		// find the guard relating nv and the accumulator among the facts added in the body
		d := normInt(nv).Sub(normInt(cr.atom))
		k := ""
		for _, c := range o.St.facts.list[min(nfacts, len(o.St.facts.list)):] {
			if c.Kind != CGE0 {
				continue
			}
			if c.P.Equal(d.AddInt(-1)) || c.P.Equal(d) {
				k = "max"
			}
			if c.P.Equal(d.Neg().AddInt(-1)) || c.P.Equal(d.Neg()) {
				k = "min"
			}
		}
		if k == "" || (kind != "" && kind != k) || (f != nil && f.Key() != canon(nv).Key()) {
			okAll = false
			break
		}
		kind, f = k, canon(nv)
	}
	// the folded function may differ from path to path of the body (e.g. after a conditional reslice): if every
	// path has the form max(acc, f_i), merge the f_i into one if-then-else over the path conditions
	if !okAll && initT != nil {
		var alt []Outcome
		k2 := ""
		good := true
		keepKeys, updKeys := map[string]int{}, map[string]int{}
		for _, o := range backs {
			pi := -1
			for i, p := range h.Preds {
				if p == o.from {
					pi = i
				}
			}
			if pi < 0 {
				good = false
				break
			}
			nfr := &frame{fn: fr.fn, env: o.env, info: fr.info}
			nv, ok := ip.value(nfr, cr.phi.Edges[pi], o.St).(*Term)
			if !ok {
				good = false
				break
			}
			cn := canon(nv)
			var g *Term
			if (cn.Op == OpMax || cn.Op == OpMin) && len(cn.Args) == 2 {
				if cn.Args[0].Key() == cr.atom.Key() {
					g = cn.Args[1]
				} else if cn.Args[1].Key() == cr.atom.Key() {
					g = cn.Args[0]
				}
			}
			kk := map[Op]string{OpMax: "max", OpMin: "min"}[cn.Op]
			mentionsAcc := func(x *Term) bool { return x.Key() == cr.atom.Key() }
			filtered := func(st *State) (*State, string) {
				fs := st.clone()
				var kept []Cond
				var keys []string
				for i, fc := range st.facts.list {
					if i >= nfacts && fc.P != nil && fc.P.mentions(mentionsAcc) {
						continue
					}
					kept = append(kept, fc)
					if i >= nfacts && fc.Tag != "axiom" {
						keys = append(keys, fc.Key())
					}
				}
				fs.facts.list = kept
				sort.Strings(keys)
				return fs, strings.Join(keys, "&")
			}
			if g == nil && cn.Key() == cr.atom.Key() {
				// the path keeps the accumulator: it must be the complement of an updating path (checked below)
				_, k := filtered(o.St)
				keepKeys[k]++
				continue
			}
			if g == nil && isIntLike(cn.Typ) && !cn.contains(mentionsAcc) {
				// "if v > acc { acc = v }": the new value under the comparison that selected it
				d := normInt(cn).Sub(normInt(cr.atom))
				for _, fc := range o.St.facts.list[minI(nfacts, len(o.St.facts.list)):] {
					if fc.Kind != CGE0 {
						continue
					}
					if fc.P.Equal(d.AddInt(-1)) || fc.P.Equal(d) {
						g, kk = cn, "max"
					}
					if fc.P.Equal(d.Neg().AddInt(-1)) || fc.P.Equal(d.Neg()) {
						g, kk = cn, "min"
					}
				}
				if g != nil {
					fs, k := filtered(o.St)
					updKeys[k]++
					oc := o
					oc.Kind, oc.Ret, oc.St = ORet, g, fs
					if k2 != "" && k2 != kk {
						good = false
						break
					}
					k2 = kk
					alt = append(alt, oc)
					continue
				}
			}
			if g == nil || g.contains(mentionsAcc) || (k2 != "" && k2 != kk) {
				good = false
				break
			}
			k2 = kk
			oc := o
			oc.Kind = ORet
			oc.Ret = g
			alt = append(alt, oc)
		}
		// every path that keeps the accumulator must mirror exactly one path that updates it under the comparison
		for k, n := range keepKeys {
			if updKeys[k] != n {
				good = false
			}
		}
		for k, n := range updKeys {
			if keepKeys[k] != n {
				good = false
			}
		}
		if good && len(alt) == 1 {
			return &Term{Op: OpFold, Name: k2, Typ: cr.phi.Type(), Loop: ctx, Args: []*Term{canon(initT), canon(valTerm(alt[0].Ret))}}
		}
		if good && len(alt) > 1 {
			if m, ok := mergeIte(alt, nfacts, 0); ok {
				return &Term{Op: OpFold, Name: k2, Typ: cr.phi.Type(), Loop: ctx, Args: []*Term{canon(initT), canon(m)}}
			}
		}
	}
	if !okAll || initT == nil {
		return mkUnknown(fmt.Sprintf("loop-carried value %s of loop at %s is not a recognised fold", cr.phi.Comment, ip.fset.Position(ctx.Pos)), cr.phi.Type())
	}
	if f == nil {
		return cr.init
	}
	// paths that keep the accumulator must be guarded by the complementary test
	for _, o := range backs {
		_ = o
	}
	return &Term{Op: OpFold, Name: kind, Typ: cr.phi.Type(), Loop: ctx, Args: []*Term{canon(initT), f}}
}

// ---------- values and instructions ----------

func (ip *Interp) value(fr *frame, v ssa.Value, st *State) Val {
	switch x := v.(type) {
	case *ssa.Const:
		return ip.constVal(x)
	case *ssa.Function:
		return FuncV{Fn: x}
	case *ssa.Global:
		pt := x.Type().Underlying().(*types.Pointer)
		o := ip.entryObject("global:"+x.Name(), pt.Elem(), OGlobal, x.Name())
		return PtrV{Obj: o, Typ: pt.Elem()}
	case *ssa.Builtin:
		return OpaqueV{Name: "builtin:" + x.Name(), Typ: x.Type()}
	}
	if r, ok := fr.env[v]; ok {
		return r
	}
	ip.undecided(st, fr, v.Pos(), "use of an undefined SSA value "+v.Name())
	return UnknownV{Why: "undefined " + v.Name(), Typ: v.Type()}
}

func (ip *Interp) constVal(c *ssa.Const) Val {
	t := c.Type()
	if c.Value == nil {
		return ip.zeroVal(t)
	}
	if _, ok := t.(*types.TypeParam); ok {
		return mkConst(c.Value, t)
	}
	if b, ok := t.Underlying().(*types.Basic); ok {
		switch {
		case b.Info()&types.IsFloat != 0:
			f, _ := constant.Float64Val(c.Value)
			if b.Kind() == types.Float32 {
				f = float64(float32(f))
			}
			return mkFloat(f, t)
		case b.Info()&types.IsInteger != 0:
			return mkConst(constant.ToInt(c.Value), t)
		}
	}
	return mkConst(c.Value, t)
}

func (ip *Interp) term(fr *frame, v ssa.Value, st *State) *Term {
	r := ip.value(fr, v, st)
	if t, ok := r.(*Term); ok {
		return t
	}
	if u, ok := r.(UnknownV); ok {
		return mkUnknown(u.Why, v.Type())
	}
	return mkUnknown("non-scalar "+valString(r), v.Type())
}

func (ip *Interp) step(fr *frame, in ssa.Instruction, st *State) {
	switch x := in.(type) {
	case *ssa.DebugRef:
	case *ssa.RunDefers:
	case *ssa.Alloc:
		pt := x.Type().Underlying().(*types.Pointer)
		o := &Object{ID: ip.id(), Name: fmt.Sprintf("%s#%d", allocName(x), ip.nextID), Kind: OFresh, Typ: pt.Elem(), Heap: x.Heap, Pos: x.Pos(), Instr: x}
		if n := len(st.loops); n > 0 {
			o.LoopID = st.loops[n-1].ID
		}
		fr.env[x] = PtrV{Obj: o, Typ: pt.Elem()}
		if x.Heap && !capturedByLocalClosuresOnly(x) && !addressStaysLocal(x, 0) {
			st.addEffect(&Effect{Kind: EAlloc, Pos: x.Pos(), Fn: fr.fn, Stack: fr.stack, Sites: fr.sites, Obj: o, Note: "new " + typeKey(pt.Elem()) + " (" + x.Comment + ")", Heap: true, Typ: pt.Elem()})
		}
	case *ssa.BinOp:
		if x.Op == token.EQL || x.Op == token.NEQ {
			// a pointer to a known object (a receiver, an argument, a fresh object) compared with nil: the entry
			// objects are the buffers the properties quantify over, none of them is the nil pointer
			pa, oka := ip.value(fr, x.X, st).(PtrV)
			pb, okb := ip.value(fr, x.Y, st).(PtrV)
			if oka && okb && (pa.Nil != pb.Nil) && ((pa.Nil && pb.Obj != nil) || (pb.Nil && pa.Obj != nil)) {
				fr.env[x] = mkConst(constant.MakeBool(x.Op == token.NEQ), x.Type())
				return
			}
		}
		a, b := ip.term(fr, x.X, st), ip.term(fr, x.Y, st)
		r := mkBin(x.Op, a, b, x.Type())
		r.Pos = x.Pos()
		if x.Op == token.QUO || x.Op == token.REM {
			note := "int"
			if isFloatLike(x.Type()) {
				note = "float"
			}
			st.addEffect(&Effect{Kind: EDiv, Pos: x.Pos(), Fn: fr.fn, Stack: fr.stack, Sites: fr.sites, Idx: b, Val: r, Note: note + " " + x.Op.String(), Typ: x.Type()})
		}
		fr.env[x] = r
	case *ssa.UnOp:
		switch x.Op {
		case token.MUL:
			p, ok := ip.value(fr, x.X, st).(PtrV)
			if !ok {
				ip.undecided(st, fr, x.Pos(), "load through a non-pointer value")
				fr.env[x] = UnknownV{Why: "load", Typ: x.Type()}
				return
			}
			fr.env[x] = ip.load(p, st, fr, x.Pos())
		case token.SUB:
			fr.env[x] = mkNeg(ip.term(fr, x.X, st), x.Type())
		case token.NOT:
			fr.env[x] = mkLNot(ip.term(fr, x.X, st))
		case token.XOR:
			fr.env[x] = mkBitNot(ip.term(fr, x.X, st), x.Type())
		default:
			ip.undecided(st, fr, x.Pos(), "unsupported unary operator "+x.Op.String())
			fr.env[x] = UnknownV{Why: "unop", Typ: x.Type()}
		}
	case *ssa.ChangeType:
		// changetype never changes the representation: the value is kept as is
		fr.env[x] = ip.value(fr, x.X, st)
	case *ssa.Convert:
		ip.convert(fr, x, x.X, st)
	case *ssa.MultiConvert:
		ip.convert(fr, x, x.X, st)
	case *ssa.ChangeInterface:
		fr.env[x] = ip.value(fr, x.X, st)
	case *ssa.MakeInterface:
		v := ip.value(fr, x.X, st)
		ip.closureEscapes(v, st, fr, x.Pos())
		fr.env[x] = IfaceV{Dyn: v, DynT: x.X.Type()}
		if !pointerShaped(x.X.Type()) {
			_, isConst := x.X.(*ssa.Const)
			note := "interface boxing of " + typeKey(x.X.Type())
			if isConst {
				note += " (constant)"
			}
			st.addEffect(&Effect{Kind: EAlloc, Pos: x.Pos(), Fn: fr.fn, Stack: fr.stack, Sites: fr.sites, Note: note, Val: v, Typ: x.X.Type()})
		}
	case *ssa.MakeClosure:
		cv := ClosureV{Fn: x.Fn.(*ssa.Function)}
		for _, b := range x.Bindings {
			cv.Bind = append(cv.Bind, ip.value(fr, b, st))
		}
		cv.Pos = x.Pos()
		fr.env[x] = cv
		// a closure that is only called (by inlined package functions) lives on the stack; the allocation
		// is recorded where it escapes: stored, boxed, passed to an external function or returned
	case *ssa.MakeSlice:
		ln, cp := ip.term(fr, x.Len, st), ip.term(fr, x.Cap, st)
		el := x.Type().Underlying().(*types.Slice).Elem()
		s := &Storage{ID: ip.id(), Kind: SFresh, Elem: el, Pos: x.Pos()}
		s.Name = fmt.Sprintf("make#%d", s.ID)
		sv := SliceV{Stor: s, Off: mkInt(0, intT), Len: ln, Cap: cp, Elem: el}
		fr.env[x] = sv
		st.addEffect(&Effect{Kind: EAlloc, Pos: x.Pos(), Fn: fr.fn, Stack: fr.stack, Sites: fr.sites, Stor: s, Note: "make " + typeKey(x.Type()), Dst: &sv, Heap: true, Typ: x.Type()})
	case *ssa.Slice:
		ip.sliceExpr(fr, x, st)
	case *ssa.FieldAddr:
		p, ok := ip.value(fr, x.X, st).(PtrV)
		if !ok || p.Stor != nil {
			ip.undecided(st, fr, x.Pos(), "field address of an unsupported pointer")
			fr.env[x] = PtrV{Typ: x.Type().Underlying().(*types.Pointer).Elem()}
			return
		}
		np := p
		np.Path = append(append([]int{}, p.Path...), x.Field)
		np.Typ = x.Type().Underlying().(*types.Pointer).Elem()
		fr.env[x] = np
	case *ssa.Field:
		v := ip.value(fr, x.X, st)
		if sv, ok := v.(StructV); ok && x.Field < len(sv.F) {
			fr.env[x] = sv.F[x.Field]
		} else {
			ip.undecided(st, fr, x.Pos(), "field of a non-struct value")
			fr.env[x] = UnknownV{Why: "field", Typ: x.Type()}
		}
	case *ssa.IndexAddr:
		ip.indexAddr(fr, x, st)
	case *ssa.Index:
		v := ip.value(fr, x.X, st)
		if av, ok := v.(ArrayV); ok {
			if c, ok := normInt(ip.term(fr, x.Index, st)).IsConst(); ok && c.IsInt64() && int(c.Int64()) < len(av.E) {
				fr.env[x] = av.E[c.Int64()]
				return
			}
		}
		ip.undecided(st, fr, x.Pos(), "index of a non-array value")
		fr.env[x] = UnknownV{Why: "index", Typ: x.Type()}
	case *ssa.Extract:
		if tv, ok := ip.value(fr, x.Tuple, st).(TupleV); ok && x.Index < len(tv.E) {
			fr.env[x] = tv.E[x.Index]
		} else {
			fr.env[x] = UnknownV{Why: "extract", Typ: x.Type()}
		}
	case *ssa.TypeAssert:
		ip.typeAssert(fr, x, st)
	case *ssa.Store:
		p, ok := ip.value(fr, x.Addr, st).(PtrV)
		if !ok {
			ip.undecided(st, fr, x.Pos(), "store through a non-pointer value")
			return
		}
		ip.store(p, ip.value(fr, x.Val, st), st, fr, x.Pos())
	case *ssa.Phi:
		ip.undecided(st, fr, x.Pos(), "phi in the middle of a block")
	default:
		ip.undecided(st, fr, in.Pos(), fmt.Sprintf("unsupported instruction %T", in))
		if v, ok := in.(ssa.Value); ok {
			fr.env[v] = UnknownV{Why: fmt.Sprintf("%T", in), Typ: v.Type()}
		}
	}
}

func allocName(a *ssa.Alloc) string {
	if a.Comment != "" {
		return a.Comment
	}
	return "alloc"
}

func pointerShaped(t types.Type) bool {
	switch u := t.Underlying().(type) {
	case *types.Pointer, *types.Signature, *types.Map, *types.Chan:
		return true
	case *types.Basic:
		return u.Kind() == types.UnsafePointer
	}
	return false
}

func convTerm(t *Term, to types.Type, pos token.Pos) *Term {
	r := mkConv(t, to)
	if r.Pos == token.NoPos {
		r.Pos = pos
	}
	return r
}

func (ip *Interp) convert(fr *frame, dst ssa.Value, src ssa.Value, st *State) {
	v := ip.value(fr, src, st)
	t, ok := v.(*Term)
	if !ok {
		// conversions between pointer/slice/string types are not used by the package
		ip.undecided(st, fr, dst.Pos(), "conversion of a non-scalar value")
		fr.env[dst] = UnknownV{Why: "convert", Typ: dst.Type()}
		return
	}
	r := convTerm(t, dst.Type(), dst.Pos())
	// a float -> integer conversion is an E4 obligation (implementation-defined when out of range)
	fromF := isFloatLike(t.Typ) || isTypeParam(t.Typ)
	toI := isIntLike(dst.Type()) || isTypeParam(dst.Type())
	if fromF && toI && !(isIntLike(t.Typ)) {
		st.addEffect(&Effect{Kind: EConvert, Pos: dst.Pos(), Fn: fr.fn, Stack: fr.stack, Sites: fr.sites, Val: r, Idx: t, Typ: dst.Type(), Note: typeKey(dst.Type()) + " <- " + typeKey(t.Typ)})
	}
	// an integer -> integer conversion that cannot represent every source value (narrower, or a sign change):
	// the shape engines read integers mathematically, so these are obligations of rule I0 (rulelib.go)
	if isIntLike(t.Typ) && isIntLike(dst.Type()) && !isTypeParam(t.Typ) && !isTypeParam(dst.Type()) && !t.IsConst() {
		from, to := kindOf(t.Typ), kindOf(dst.Type())
		if from.OK && to.OK && !(from.Signed == to.Signed && to.Bits >= from.Bits) && !(!from.Signed && to.Signed && to.Bits > from.Bits) {
			// the range-test idiom uint(x) < c: a signed value reinterpreted as unsigned of the same width and used
			// only in comparisons is kept as an opaque value u (with u <= MaxSigned implying u = x >= 0, see
			// Facts.ge0Facts) instead of being erased, unless x >= 0 is already known
			probe := &Effect{Idx: t, Typ: dst.Type(), Facts: st.facts}
			if ok, _, _ := narrowInRange(probe); !ok && from.Signed && !to.Signed && to.Bits >= from.Bits && onlyCompared(dst) &&
				!t.contains(func(x *Term) bool { return x.Op == OpElem }) {
				r = &Term{Op: OpCall, Name: reinterpretPrefix + typeKey(dst.Type()) + ">", Typ: dst.Type(), Args: []*Term{t}, Pos: dst.Pos()}
				st.addEffect(&Effect{Kind: ENarrow, Pos: dst.Pos(), Fn: fr.fn, Stack: fr.stack, Sites: fr.sites, Val: r, Idx: t, Typ: dst.Type(), Note: "reinterpreting (compared only) " + typeKey(dst.Type()) + " <- " + typeKey(t.Typ)})
				fr.env[dst] = r
				return
			}
			st.addEffect(&Effect{Kind: ENarrow, Pos: dst.Pos(), Fn: fr.fn, Stack: fr.stack, Sites: fr.sites, Val: r, Idx: t, Typ: dst.Type(), Note: "narrowing " + typeKey(dst.Type()) + " <- " + typeKey(t.Typ)})
		}
	}
	fr.env[dst] = r
}

func isTypeParam(t types.Type) bool {
	_, ok := t.(*types.TypeParam)
	return ok
}

func (ip *Interp) sliceExpr(fr *frame, x *ssa.Slice, st *State) {
	base := ip.value(fr, x.X, st)
	var sv SliceV
	switch b := base.(type) {
	case SliceV:
		sv = b
	case PtrV:
		// pointer to array
		if b.Obj != nil && len(b.Path) == 0 {
			if at, ok := b.Obj.Typ.Underlying().(*types.Array); ok {
				s := &Storage{ID: ip.id(), Kind: SArrayObj, Elem: at.Elem(), Obj: b.Obj, Name: "array:" + b.Obj.Name}
				n := mkInt(at.Len(), intT)
				sv = SliceV{Stor: s, Off: mkInt(0, intT), Len: n, Cap: n, Elem: at.Elem()}
				break
			}
		}
		ip.undecided(st, fr, x.Pos(), "slice of an unsupported pointer")
		fr.env[x] = UnknownV{Why: "slice", Typ: x.Type()}
		return
	default:
		ip.undecided(st, fr, x.Pos(), "slice of an unsupported value")
		fr.env[x] = UnknownV{Why: "slice", Typ: x.Type()}
		return
	}
	if (x.High == nil && !sv.LenFresh) || sv.Stale == "" {
		ip.staleUse(sv, "slice expression", st, fr, x.Pos())
	}
	lo := mkInt(0, intT)
	if x.Low != nil {
		lo = ip.term(fr, x.Low, st)
	}
	hi := sv.Len
	if x.High != nil {
		hi = ip.term(fr, x.High, st)
	}
	var mx *Term
	if x.Max != nil {
		mx = ip.term(fr, x.Max, st)
	}
	st.addEffect(&Effect{Kind: EIndex, Pos: x.Pos(), Fn: fr.fn, Stack: fr.stack, Sites: fr.sites, Stor: sv.Stor, Lo: lo, Hi: hi, Max: mx, N: sv.Cap, Note: "slice", Dst: &sv})
	capEnd := sv.Cap
	if mx != nil {
		capEnd = mx
	}
	r := SliceV{Stor: sv.Stor, Elem: sv.Elem,
		Off: mkBin(token.ADD, sv.Off, lo, intT),
		Len: mkBin(token.SUB, hi, lo, intT),
		Cap: mkBin(token.SUB, capEnd, lo, intT)}
	if sv.Nil {
		r.Nil = true
	}
	if sv.Stale != "" {
		// an explicit high bound does not depend on the stale length; the
		// capacity of the result still does
		r.Stale, r.LenFresh = sv.Stale, x.High != nil || sv.LenFresh
	}
	fr.env[x] = r
}

func (ip *Interp) indexAddr(fr *frame, x *ssa.IndexAddr, st *State) {
	base := ip.value(fr, x.X, st)
	idx := ip.term(fr, x.Index, st)
	el := x.Type().Underlying().(*types.Pointer).Elem()
	switch b := base.(type) {
	case SliceV:
		if b.Nil || b.Stor == nil {
			st.addEffect(&Effect{Kind: EIndex, Pos: x.Pos(), Fn: fr.fn, Stack: fr.stack, Sites: fr.sites, Idx: idx, Hi: mkInt(0, intT), Note: "index"})
			fr.env[x] = PtrV{Typ: el}
			return
		}
		note := "index"
		if b.Stale != "" {
			note = "index(stale header)"
		}
		st.addEffect(&Effect{Kind: EIndex, Pos: x.Pos(), Fn: fr.fn, Stack: fr.stack, Sites: fr.sites, Stor: b.Stor, Idx: idx, Hi: b.Len, Note: note, Dst: &b})
		fr.env[x] = PtrV{Stor: b.Stor, Idx: mkBin(token.ADD, b.Off, idx, intT), Typ: el}
	case PtrV:
		if b.Obj != nil {
			if _, ok := b.Obj.Typ.Underlying().(*types.Array); ok || len(b.Path) > 0 {
				if c, ok := normInt(idx).IsConst(); ok && c.IsInt64() {
					np := b
					np.Path = append(append([]int{}, b.Path...), int(c.Int64()))
					np.Typ = el
					fr.env[x] = np
					return
				}
			}
		}
		ip.undecided(st, fr, x.Pos(), "index address into an unsupported array pointer")
		fr.env[x] = PtrV{Typ: el}
	default:
		ip.undecided(st, fr, x.Pos(), "index address of an unsupported value "+valString(base))
		fr.env[x] = PtrV{Typ: el}
	}
}

func (ip *Interp) typeAssert(fr *frame, x *ssa.TypeAssert, st *State) {
	v := ip.value(fr, x.X, st)
	iv, _ := v.(IfaceV)
	var okT *Term
	var res Val
	switch {
	case iv.DynT != nil && !hasTypeParam(iv.DynT) && !hasTypeParam(x.AssertedType):
		match := false
		if types.IsInterface(x.AssertedType) {
			match = types.Implements(iv.DynT, x.AssertedType.Underlying().(*types.Interface))
		} else {
			match = types.Identical(iv.DynT, x.AssertedType)
		}
		okT = mkBool(match)
		if match {
			res = iv.Dyn
			if types.IsInterface(x.AssertedType) {
				res = iv
			}
		} else {
			res = ip.zeroVal(x.AssertedType)
		}
	case iv.DynT != nil:
		// generic body: undecidable without the type argument
		okT = mkAtom(fmt.Sprintf("typeis(%s,%s)", typeKey(iv.DynT), typeKey(x.AssertedType)), types.Typ[types.Bool])
		res = iv.Dyn
	default:
		// opaque interface (e.g. result of sync.Pool.Get): the asserted value is a
		// symbolic object of the asserted type
		name := "assert:" + valString(v)
		okT = mkAtom("ok("+name+")", types.Typ[types.Bool])
		if pt, ok := x.AssertedType.Underlying().(*types.Pointer); ok {
			o := ip.entryObject("*"+name, pt.Elem(), OOpaque, name)
			res = PtrV{Obj: o, Typ: pt.Elem()}
		} else {
			res = OpaqueV{Name: name, Typ: x.AssertedType}
		}
	}
	if x.CommaOk {
		fr.env[x] = TupleV{E: []Val{res, okT}}
	} else {
		fr.env[x] = res
	}
}

func hasTypeParam(t types.Type) bool {
	found := false
	var visit func(types.Type, int)
	visit = func(t types.Type, d int) {
		if found || d > 6 || t == nil {
			return
		}
		switch u := t.(type) {
		case *types.TypeParam:
			found = true
		case *types.Pointer:
			visit(u.Elem(), d+1)
		case *types.Slice:
			visit(u.Elem(), d+1)
		case *types.Array:
			visit(u.Elem(), d+1)
		case *types.Named:
			for i := 0; i < u.TypeArgs().Len(); i++ {
				visit(u.TypeArgs().At(i), d+1)
			}
		}
	}
	visit(t, 0)
	return found
}

// ---------- calls ----------

func (ip *Interp) inPackage(fn *ssa.Function) bool {
	if fn == nil || len(fn.Blocks) == 0 {
		return false
	}
	if fn.Pkg == ip.pkg {
		return true
	}
	if o := fn.Origin(); o != nil && o.Pkg == ip.pkg {
		return true
	}
	if fn.Synthetic != "" && fn.Pkg == nil {
		// wrappers / bound methods / instantiations of package functions
		if p := fn.Parent(); p != nil {
			return ip.inPackage(p)
		}
		if fn.Object() != nil && fn.Object().Pkg() == ip.pkg.Pkg {
			return true
		}
	}
	return false
}

func (ip *Interp) call(fr *frame, in ssa.CallInstruction, st *State) []Outcome {
	com := in.Common()
	pos := in.Pos()
	ret := func(v Val) []Outcome { return []Outcome{{Kind: ORet, Ret: v, St: st}} }
	var resT types.Type
	if v, ok := in.(ssa.Value); ok {
		resT = v.Type()
	}
	var invoked *ssa.Function
	if com.IsInvoke() {
		// a method called on a value whose type is a type parameter: static once the type argument is known
		// (the frame carries the type arguments of the instantiation it was entered through)
		if tp, isTP := com.Value.Type().(*types.TypeParam); isTP && fr.tsub[tp] != nil {
			invoked = ip.methodOf(fr.tsub[tp], com.Method)
		}
		if invoked == nil {
			ip.undecided(st, fr, pos, "dynamic interface method call "+com.Method.Name())
			return ret(UnknownV{Why: "invoke", Typ: resT})
		}
	}
	args := make([]Val, 0, len(com.Args)+1)
	if invoked != nil {
		args = append(args, ip.value(fr, com.Value, st))
	}
	for _, a := range com.Args {
		args = append(args, ip.value(fr, a, st))
	}
	if b, ok := com.Value.(*ssa.Builtin); ok && invoked == nil {
		return ret(ip.builtin(fr, b, com, args, resT, st, pos))
	}
	callee := invoked
	if callee == nil {
		callee = com.StaticCallee()
	}
	var bind []Val
	if invoked != nil {
	} else if callee == nil {
		switch f := ip.value(fr, com.Value, st).(type) {
		case ClosureV:
			callee, bind = f.Fn, f.Bind
		case FuncV:
			callee = f.Fn
		}
	} else if mc, ok := com.Value.(*ssa.MakeClosure); ok {
		for _, b := range mc.Bindings {
			bind = append(bind, ip.value(fr, b, st))
		}
	}
	if callee == nil {
		ip.undecided(st, fr, pos, "dynamic call")
		return ret(UnknownV{Why: "dynamic call", Typ: resT})
	}
	if !ip.inPackage(callee) {
		return ret(ip.external(fr, callee, args, resT, st, pos))
	}
	if fr.depth >= ip.maxDepth {
		ip.undecided(st, fr, pos, "inlining depth exceeded at "+callee.String())
		return ret(UnknownV{Why: "depth", Typ: resT})
	}
	for _, f := range fr.stack {
		if f == callee {
			ip.undecided(st, fr, pos, "recursive call of "+callee.String())
			return ret(UnknownV{Why: "recursion", Typ: resT})
		}
	}
	nf := &frame{fn: callee, env: map[ssa.Value]Val{}, depth: fr.depth + 1, info: ip.info(callee),
		stack: append(append([]*ssa.Function{}, fr.stack...), callee),
		sites: append(append([]token.Pos{}, fr.sites...), pos)}
	nf.tsub = typeArgsOf(callee, fr.tsub)
	for i, p := range callee.Params {
		if i < len(args) {
			nf.env[p] = args[i]
		}
	}
	for i, fv := range callee.FreeVars {
		if i < len(bind) {
			nf.env[fv] = bind[i]
		}
	}
	nEff, nFacts := len(st.effects), len(st.facts.list)
	memK := snapshotMem(st)
	outs := ip.execFrom(nf, callee.Blocks[0], 0, nil, st)
	if len(outs) <= 1 {
		return outs
	}
	// merge pure scalar outcomes into an if-then-else term
	pure := true
	for _, o := range outs {
		if o.Kind != ORet {
			pure = false
			break
		}
		if _, ok := o.Ret.(*Term); !ok && o.Ret != nil {
			pure = false
			break
		}
		for _, e := range o.St.effects[nEff:] {
			if e.Kind != EIndex && e.Kind != EDiv && e.Kind != EConvert {
				pure = false
			}
		}
		if !sameMem(memK, o.St) {
			pure = false
		}
	}
	if !pure || outs[0].Ret == nil {
		return outs
	}
	merged, ok := mergeIte(outs, nFacts, 0)
	if !ok {
		return outs
	}
	// keep obligations (index/div/convert) of all paths, each with its own facts
	base := outs[0].St
	ms := st.clone()
	ms.effects = ms.effects[:nEff]
	ms.facts.list = ms.facts.list[:nFacts]
	seen := map[*Effect]bool{}
	for _, o := range outs {
		for _, e := range o.St.effects[nEff:] {
			if !seen[e] {
				seen[e] = true
				ms.effects = append(ms.effects, e)
			}
		}
		// axioms discovered lazily on a path stay valid on all
		for _, c := range o.St.facts.list[nFacts:] {
			if c.Tag == "axiom" {
				ms.facts.add(c)
			}
		}
		for o2, v := range o.St.mem {
			if _, ok := ms.mem[o2]; !ok {
				ms.mem[o2] = v
			}
		}
	}
	_ = base
	return []Outcome{{Kind: ORet, Ret: merged, St: ms}}
}

// mergeIte rebuilds the decision tree of pure outcomes from the facts each
// path added after position n.
func mergeIte(outs []Outcome, n int, depth int) (*Term, bool) {
	if len(outs) == 1 {
		t, _ := outs[0].Ret.(*Term)
		return t, t != nil
	}
	if depth > 16 {
		return nil, false
	}
	// the first fact after n of the first outcome whose negation occurs on another outcome splits the set
	var split *Cond
	pos := -1
	for i := n; i < len(outs[0].St.facts.list) && split == nil; i++ {
		c := outs[0].St.facts.list[i]
		if c.Tag == "axiom" {
			continue
		}
		nk := c.Not().Key()
		for _, o := range outs[1:] {
			for j := n; j < len(o.St.facts.list); j++ {
				if o.St.facts.list[j].Key() == nk {
					split, pos = &c, i
					break
				}
			}
			if split != nil {
				break
			}
		}
	}
	if split == nil {
		return nil, false
	}
	var yes, no []Outcome
	for _, o := range outs {
		found := 0
		for i := n; i < len(o.St.facts.list); i++ {
			c := o.St.facts.list[i]
			if c.Key() == split.Key() {
				found = 1
				break
			}
			if c.Key() == split.Not().Key() {
				found = 2
				break
			}
		}
		switch found {
		case 1:
			yes = append(yes, o)
		case 2:
			no = append(no, o)
		default:
			return nil, false
		}
	}
	if len(yes) == 0 || len(no) == 0 {
		return nil, false
	}
	_ = pos
	a, ok1 := mergeIteSkip(yes, n, split.Key(), depth+1)
	b, ok2 := mergeIteSkip(no, n, split.Not().Key(), depth+1)
	if !ok1 || !ok2 {
		return nil, false
	}
	// keep the branch condition as the program wrote it (typed, machine semantics) when it is known;
	// the normalised form is only used for conditions that were built by the interpreter itself
	ct := split.Term()
	if split.Orig != nil {
		ct = split.Orig
		if split.OrigNeg {
			ct = mkLNot(ct)
		}
	}
	return mkIte(ct, a, b), true
}

func mergeIteSkip(outs []Outcome, n int, skip string, depth int) (*Term, bool) {
	// drop the splitting fact from consideration by filtering it out of a copy of each facts list
	cp := make([]Outcome, len(outs))
	for i, o := range outs {
		st := *o.St
		f := &Facts{}
		f.list = append(f.list, o.St.facts.list[:n]...)
		for _, c := range o.St.facts.list[n:] {
			if c.Key() != skip {
				f.list = append(f.list, c)
			}
		}
		st.facts = f
		cp[i] = o
		cp[i].St = &st
	}
	return mergeIte(cp, n, depth)
}

func fnName(fn *ssa.Function) string {
	if fn == nil {
		return "<nil>"
	}
	if o := fn.Origin(); o != nil {
		fn = o
	}
	return fn.String()
}

func (ip *Interp) external(fr *frame, callee *ssa.Function, args []Val, resT types.Type, st *State, pos token.Pos) Val {
	name := callee.String()
	for _, a := range args {
		ip.closureEscapes(a, st, fr, pos)
	}
	switch name {
	case "math.Ceil", "math.Floor", "math.Round", "math.Trunc", "math.RoundToEven", "math.Abs":
		if t, ok := args[0].(*Term); ok {
			r := mkCall(name, resT, t)
			r.Pos = pos
			return r
		}
	case "math.IsNaN":
		// a pure predicate of one float: kept as a term (the kernel evaluators know that NaN is outside the
		// domain of the numeric properties, see splitF)
		if t, ok := args[0].(*Term); ok {
			r := mkCall(name, resT, t)
			r.Pos = pos
			return r
		}
	case "(time.Duration).Nanoseconds":
		// func (d Duration) Nanoseconds() int64 { return int64(d) }
		if t, ok := args[0].(*Term); ok {
			return convTerm(t, resT, pos)
		}
	case "reflect.ValueOf":
		if iv, ok := args[0].(IfaceV); ok {
			return ReflectV{Of: iv.Dyn}
		}
		return ReflectV{Of: args[0]}
	case "(reflect.Value).Elem":
		if rv, ok := args[0].(ReflectV); ok {
			if p, ok := rv.Of.(PtrV); ok && !p.Nil {
				return ReflectV{Addr: &p}
			}
		}
	case "(reflect.Value).Len", "(reflect.Value).Cap":
		if rv, ok := args[0].(ReflectV); ok && rv.Addr != nil && rv.Addr.Obj != nil {
			if cur, ok := ip.load(*rv.Addr, st, fr, pos).(SliceV); ok {
				if strings.HasSuffix(name, "Len") {
					return cur.Len
				}
				return cur.Cap
			}
		}
	case "(reflect.Value).SetCap", "(reflect.Value).SetLen":
		if rv, ok := args[0].(ReflectV); ok && rv.Addr != nil && rv.Addr.Obj != nil {
			n, _ := args[1].(*Term)
			cur, ok := ip.load(*rv.Addr, st, fr, pos).(SliceV)
			if ok && n != nil {
				nv := cur
				note := "SetCap"
				if strings.HasSuffix(name, "SetCap") {
					nv.Cap = n
				} else {
					nv.Len = n
					note = "SetLen"
				}
				upd, ok := setPath(ip.content(rv.Addr.Obj, st), rv.Addr.Path, nv)
				if ok {
					st.mem[rv.Addr.Obj] = upd
					st.addEffect(&Effect{Kind: ESetCap, Pos: pos, Fn: fr.fn, Stack: fr.stack, Sites: fr.sites, Obj: rv.Addr.Obj, Path: rv.Addr.Path, N: n, Dst: &cur, Note: note})
					if rv.Addr.Obj.Kind != OFresh {
						st.hdrStores = append(st.hdrStores, hdrStore{rv.Addr.Obj, pathString(rv.Addr.Path)})
					}
					return nil
				}
			}
		}
	case "(*sync.Pool).Get":
		st.addEffect(&Effect{Kind: ECall, Pos: pos, Fn: fr.fn, Stack: fr.stack, Sites: fr.sites, Callee: name, Args: args})
		return IfaceV{Dyn: OpaqueV{Name: fmt.Sprintf("pool.Get@%d", len(st.effects)), Typ: resT}}
	case "(*sync.Pool).Put":
		st.addEffect(&Effect{Kind: ECall, Pos: pos, Fn: fr.fn, Stack: fr.stack, Sites: fr.sites, Callee: name, Args: args})
		return nil
	}
	st.addEffect(&Effect{Kind: ECall, Pos: pos, Fn: fr.fn, Stack: fr.stack, Sites: fr.sites, Callee: name, Args: args, Note: "unknown external"})
	if resT == nil {
		return nil
	}
	if tup, ok := resT.(*types.Tuple); ok && tup.Len() == 0 {
		return nil
	}
	return UnknownV{Why: "result of " + name, Typ: resT}
}

func (ip *Interp) builtin(fr *frame, b *ssa.Builtin, com *ssa.CallCommon, args []Val, resT types.Type, st *State, pos token.Pos) Val {
	switch b.Name() {
	case "len", "cap":
		switch x := args[0].(type) {
		case SliceV:
			ip.staleUse(x, b.Name(), st, fr, pos)
			if b.Name() == "len" {
				return x.Len
			}
			return x.Cap
		case *Term:
			if x.IsConst() && x.C.Kind() == constant.String {
				return mkInt(int64(len(constant.StringVal(x.C))), intT)
			}
			return mkCall(b.Name(), intT, x)
		case ArrayV:
			return mkInt(int64(len(x.E)), intT)
		}
	case "min", "max":
		var acc *Term
		for _, a := range args {
			t, ok := a.(*Term)
			if !ok {
				acc = nil
				break
			}
			if acc == nil {
				acc = t
				continue
			}
			tok := token.LSS
			if b.Name() == "max" {
				tok = token.GTR
			}
			acc = mkIte(mkCmp(tok, acc, t), acc, t)
		}
		if acc != nil {
			return acc
		}
	case "append":
		return ip.appendBuiltin(fr, args, resT, st, pos)
	case "copy":
		d, ok1 := args[0].(SliceV)
		s, ok2 := args[1].(SliceV)
		if ok1 && ok2 {
			ip.staleUse(d, "copy", st, fr, pos)
			ip.staleUse(s, "copy", st, fr, pos)
			n := mkIte(mkCmp(token.LSS, d.Len, s.Len), d.Len, s.Len)
			if !d.Nil && d.Stor != nil {
				st.addEffect(&Effect{Kind: ECopy, Pos: pos, Fn: fr.fn, Stack: fr.stack, Sites: fr.sites, Stor: d.Stor, Dst: &d, Src: &s, N: n})
			}
			return n
		}
	case "clear":
		if s, ok := args[0].(SliceV); ok {
			ip.staleUse(s, "clear", st, fr, pos)
			if !s.Nil && s.Stor != nil {
				st.addEffect(&Effect{Kind: EClear, Pos: pos, Fn: fr.fn, Stack: fr.stack, Sites: fr.sites, Stor: s.Stor, Dst: &s, N: s.Len})
			}
			return nil
		}
	case "ssa:wrapnilchk":
		return args[0]
	case "Sizeof":
		if len(com.Args) == 1 && !hasTypeParam(com.Args[0].Type()) {
			return mkInt(ip.sizes.Sizeof(com.Args[0].Type()), resT)
		}
		return mkAtom("sizeof("+typeKey(com.Args[0].Type())+")", resT)
	case "print", "println":
		st.addEffect(&Effect{Kind: ECall, Pos: pos, Fn: fr.fn, Stack: fr.stack, Sites: fr.sites, Callee: b.Name(), Args: args})
		return nil
	}
	ip.undecided(st, fr, pos, "unsupported builtin "+b.Name())
	return UnknownV{Why: "builtin " + b.Name(), Typ: resT}
}

func (ip *Interp) appendBuiltin(fr *frame, args []Val, resT types.Type, st *State, pos token.Pos) Val {
	s, ok1 := args[0].(SliceV)
	t, ok2 := args[1].(SliceV)
	if !ok1 || !ok2 {
		ip.undecided(st, fr, pos, "append of unsupported operands")
		return UnknownV{Why: "append", Typ: resT}
	}
	ip.staleUse(s, "append", st, fr, pos)
	ip.staleUse(t, "append", st, fr, pos)
	n := t.Len
	newLen := mkBin(token.ADD, s.Len, n, intT)
	// fits: len+n <= cap
	fits := Cond{Kind: CGE0, P: normInt(s.Cap).Sub(normInt(newLen))}
	verdict := st.facts.eval(fits)
	if s.Nil || s.Stor == nil {
		verdict = No
		if c, ok := normInt(n).IsConst(); ok && c.Sign() == 0 {
			return s
		}
	}
	switch verdict {
	case Yes:
		dst := SliceV{Stor: s.Stor, Off: mkBin(token.ADD, s.Off, s.Len, intT), Len: n, Cap: mkBin(token.SUB, s.Cap, s.Len, intT), Elem: s.Elem}
		// single known elements are recorded as element stores
		if c, ok := normInt(n).IsConst(); ok && c.IsInt64() && c.Int64() <= 8 && t.Stor != nil && t.Stor.Kind == SArrayObj {
			for i := int64(0); i < c.Int64(); i++ {
				ev := ip.loadElem(t.Stor, mkBin(token.ADD, t.Off, mkInt(i, intT), intT), st, fr, pos)
				st.addEffect(&Effect{Kind: EStoreElem, Pos: pos, Fn: fr.fn, Stack: fr.stack, Sites: fr.sites, Stor: s.Stor,
					Idx: mkBin(token.ADD, dst.Off, mkInt(i, intT), intT), Val: ev, Note: "append in place"})
			}
		} else {
			st.addEffect(&Effect{Kind: ECopy, Pos: pos, Fn: fr.fn, Stack: fr.stack, Sites: fr.sites, Stor: s.Stor, Dst: &dst, Src: &t, N: n, Note: "append in place"})
		}
		return SliceV{Stor: s.Stor, Off: s.Off, Len: newLen, Cap: s.Cap, Elem: s.Elem}
	}
	g := &Storage{ID: ip.id(), Kind: SGrown, Elem: s.Elem, From: &s, Added: &t, May: verdict == Unknown, Pos: pos}
	g.Name = fmt.Sprintf("grown#%d", g.ID)
	ncap := mkAtom(fmt.Sprintf("cap(%s)", g.Name), intT)
	st.facts.add(Cond{Kind: CGE0, P: normInt(ncap).Sub(normInt(newLen)), Tag: "axiom"})
	note := "grows"
	if verdict == Unknown {
		note = "may grow"
		// when it does not grow, the appended elements are written into the spare capacity of the old storage
		if !s.Nil && s.Stor != nil {
			dst := SliceV{Stor: s.Stor, Off: mkBin(token.ADD, s.Off, s.Len, intT), Len: n, Cap: mkBin(token.SUB, s.Cap, s.Len, intT), Elem: s.Elem}
			st.addEffect(&Effect{Kind: ECopy, Pos: pos, Fn: fr.fn, Stack: fr.stack, Sites: fr.sites, Stor: s.Stor, Dst: &dst, Src: &t, N: n, Note: "append may write in place"})
		}
	}
	st.addEffect(&Effect{Kind: EGrow, Pos: pos, Fn: fr.fn, Stack: fr.stack, Sites: fr.sites, Stor: g, Dst: &s, Src: &t, N: n, Note: note, Heap: true})
	st.addEffect(&Effect{Kind: EAlloc, Pos: pos, Fn: fr.fn, Stack: fr.stack, Sites: fr.sites, Stor: g, Note: "append " + note, Heap: true})
	return SliceV{Stor: g, Off: mkInt(0, intT), Len: newLen, Cap: ncap, Elem: s.Elem}
}

// capturedByLocalClosuresOnly: go/ssa marks every variable captured by a closure as a heap cell. When the
// variable is only loaded, stored and bound into closures, and each of those closures is only ever called
// (directly, or by an in-package function that receives it in a parameter it only calls), neither the closure
// nor the cell outlives the frame, and the cell is a stack slot. The compiler's own verdict is cross-checked
// by E6, which reports any "moved to heap" line that has no recorded site.
func capturedByLocalClosuresOnly(a *ssa.Alloc) bool {
	refs := a.Referrers()
	if refs == nil {
		return false
	}
	captured := false
	for _, r := range *refs {
		switch y := r.(type) {
		case *ssa.Store:
			if y.Val == ssa.Value(a) {
				return false // the address itself is stored somewhere
			}
		case *ssa.UnOp:
			if y.Op != token.MUL {
				return false
			}
		case *ssa.MakeClosure:
			captured = true
			if !onlyCalled(y, 0) {
				return false
			}
		case *ssa.DebugRef:
		default:
			return false
		}
	}
	return captured
}

// onlyCalled: every use of the function value is a call of it, or passing it to a static in-package callee
// whose corresponding parameter is itself only called.
func onlyCalled(v ssa.Value, depth int) bool {
	refs := v.Referrers()
	if refs == nil || depth > 3 {
		return false
	}
	for _, r := range *refs {
		ci, ok := r.(ssa.CallInstruction)
		if !ok {
			if _, dbg := r.(*ssa.DebugRef); dbg {
				continue
			}
			// instantiated generic code re-types a func value without changing it
			if ct, isCT := r.(*ssa.ChangeType); isCT {
				if _, isSig := ct.Type().Underlying().(*types.Signature); isSig && onlyCalled(ct, depth) {
					continue
				}
			}
			return false
		}
		if _, isGo := r.(*ssa.Go); isGo {
			return false
		}
		if _, isDefer := r.(*ssa.Defer); isDefer {
			return false
		}
		com := ci.Common()
		if com.Value == v && !com.IsInvoke() {
			// called; it must not also be passed to itself as an argument
			for _, arg := range com.Args {
				if arg == v {
					return false
				}
			}
			continue
		}
		callee := com.StaticCallee()
		if callee == nil || len(callee.Blocks) == 0 || callee.Signature.Variadic() {
			return false
		}
		for i, arg := range com.Args {
			if arg != v {
				continue
			}
			if i >= len(callee.Params) || !onlyCalled(callee.Params[i], depth+1) {
				return false
			}
		}
	}
	return true
}

const reinterpretPrefix = "reinterpret<"

// onlyCompared: every use of the value is an operand of a comparison.
func onlyCompared(v ssa.Value) bool {
	refs := v.Referrers()
	if refs == nil || len(*refs) == 0 {
		return false
	}
	for _, r := range *refs {
		switch y := r.(type) {
		case *ssa.BinOp:
			switch y.Op {
			case token.LSS, token.LEQ, token.GTR, token.GEQ, token.EQL, token.NEQ:
			default:
				return false
			}
		case *ssa.DebugRef:
		default:
			return false
		}
	}
	return true
}

// RunClosure executes a closure value (function plus bindings) from the given state; used by rules that need the
// behaviour of a func value stored by a constructor (sync.Pool.New).
func (ip *Interp) RunClosure(cv ClosureV, st *State) []Outcome {
	fn := cv.Fn
	if fn == nil || len(fn.Blocks) == 0 {
		return nil
	}
	fr := &frame{fn: fn, env: map[ssa.Value]Val{}, info: ip.info(fn), stack: []*ssa.Function{fn}}
	for i, fv := range fn.FreeVars {
		if i < len(cv.Bind) {
			fr.env[fv] = cv.Bind[i]
		}
	}
	s2 := st.clone()
	for _, p := range fn.Params {
		fr.env[p] = ip.symVal(p.Name(), p.Type(), OParam, p.Name(), s2)
	}
	return ip.execFrom(fr, fn.Blocks[0], 0, nil, s2)
}

// ---------- loop-carried fields of local objects ----------

type leafRef struct {
	obj  *Object
	path []int
}

// fieldIV: a scalar or slice field of a local object that advances by a constant or loop-invariant step.
type fieldIV struct {
	obj   *Object
	path  []int
	initT *Term  // scalar field
	stepT *Term  //   value at iteration k: initT + stepT*k
	initS SliceV // slice field
	stepC *Term  //   offset + stepC*k, len - stepC*k, cap - stepC*k
	slice bool
}

func (f fieldIV) at(k *Term) Val {
	if !f.slice {
		return mkBin(token.ADD, f.initT, mkBin(token.MUL, f.stepT, k, f.initT.Typ), f.initT.Typ)
	}
	adv := mkBin(token.MUL, f.stepC, k, intT)
	nv := f.initS
	nv.Off = mkBin(token.ADD, f.initS.Off, adv, intT)
	nv.Len = mkBin(token.SUB, f.initS.Len, adv, intT)
	nv.Cap = mkBin(token.SUB, f.initS.Cap, adv, intT)
	return nv
}

func canonVal(v Val) Val {
	switch x := v.(type) {
	case *Term:
		if isIntLike(x.Typ) {
			return normInt(x).toTerm()
		}
		return canon(x)
	case SliceV:
		x.Off, x.Len, x.Cap = normInt(x.Off).toTerm(), normInt(x.Len).toTerm(), normInt(x.Cap).toTerm()
		return x
	}
	return v
}

// localLeaves lists the integer and slice leaves of the local (fresh, non-array) objects of the state.
func localLeaves(st *State) []leafRef {
	var out []leafRef
	var walk func(o *Object, v Val, path []int)
	walk = func(o *Object, v Val, path []int) {
		switch x := v.(type) {
		case StructV:
			for i, f := range x.F {
				walk(o, f, append(append([]int{}, path...), i))
			}
		case *Term:
			if isIntLike(x.Typ) {
				out = append(out, leafRef{o, path})
			}
		case SliceV:
			if x.Stor != nil && !x.Nil {
				out = append(out, leafRef{o, path})
			}
		}
	}
	for o, v := range st.mem {
		if o.Kind != OFresh {
			continue
		}
		if _, isArr := o.Typ.Underlying().(*types.Array); isArr {
			continue
		}
		if isBufferType(o.Typ) {
			continue // buffer headers are never loop cursors; their stores are effects of their own
		}
		walk(o, v, nil)
	}
	sort.Slice(out, func(i, j int) bool {
		if out[i].obj.ID != out[j].obj.ID {
			return out[i].obj.ID < out[j].obj.ID
		}
		return pathString(out[i].path) < pathString(out[j].path)
	})
	return out
}

type fieldDiscovery struct {
	cands   []leafRef
	atoms   []Val // havoc value per candidate
	steps   []*Term
	seen    bool
	failed  bool
	probe   bool   // first run: only find out which fields change at all
	changed []bool //   result of the probe run
}

// observe compares the candidates at a back edge with their havoc'd entry values.
func (d *fieldDiscovery) observe(st *State) {
	defer func() {
		if d.failed && os.Getenv("VERIF_DEBUG_DISC") != "" {
			for i, c := range d.cands {
				cur, _ := getPath(st.mem[c.obj], c.path)
				fmt.Fprintf(os.Stderr, "  cand %d %s%v havoc=%s cur=%s\n", i, c.obj.Name, c.path, valString(d.atoms[i]), valString(cur))
			}
		}
	}()
	for i, c := range d.cands {
		cur, ok := getPath(st.mem[c.obj], c.path)
		if !ok || st.mem[c.obj] == nil {
			d.failed = true
			return
		}
		if d.probe {
			if valKey(canonVal(cur)) != valKey(canonVal(d.atoms[i])) {
				d.changed[i] = true
			}
			continue
		}
		var step *Term
		switch a := d.atoms[i].(type) {
		case *Term:
			t, isT := cur.(*Term)
			if !isT {
				d.failed = true
				return
			}
			step = normInt(t).Sub(normInt(a)).toTerm()
		case SliceV:
			s, isS := cur.(SliceV)
			if !isS || s.Stor != a.Stor {
				d.failed = true
				return
			}
			step = normInt(s.Off).Sub(normInt(a.Off)).toTerm()
			if !normInt(a.Len).Sub(normInt(s.Len)).Equal(normInt(step)) || !normInt(a.Cap).Sub(normInt(s.Cap)).Equal(normInt(step)) {
				d.failed = true
				return
			}
		}
		// the step must not depend on the havoc'd fields or on the iteration
		if step.contains(func(x *Term) bool { return x.Op == OpAtom && (strings.HasPrefix(x.Name, "havoc.") || x.Loop != nil) }) {
			d.failed = true
			return
		}
		if d.seen && d.steps[i] != nil && !normInt(d.steps[i]).Equal(normInt(step)) {
			d.failed = true
			return
		}
		d.steps[i] = step
	}
	d.seen = true
}

// discoverFields runs the loop once in discovery mode and returns the fields that advance by a non-zero step.
func (ip *Interp) discoverFields(fr *frame, lp *loopInfo, pred *ssa.BasicBlock, st *State, cands []leafRef) []fieldIV {
	if ip.discover == nil {
		ip.discover = map[*loopInfo]*fieldDiscovery{}
	}
	return ip.discoverFields2(fr, lp, pred, st, cands, true)
}

func (ip *Interp) discoverFields2(fr *frame, lp *loopInfo, pred *ssa.BasicBlock, st *State, cands []leafRef, probe bool) []fieldIV {
	d := &fieldDiscovery{cands: cands, atoms: make([]Val, len(cands)), steps: make([]*Term, len(cands)), probe: probe, changed: make([]bool, len(cands))}
	ds := st.clone()
	for i, c := range cands {
		cur, _ := getPath(ds.mem[c.obj], c.path)
		name := fmt.Sprintf("havoc.%d.%s", c.obj.ID, pathString(c.path))
		switch x := cur.(type) {
		case *Term:
			d.atoms[i] = mkAtom(name, x.Typ)
		case SliceV:
			hv := x
			hv.Off, hv.Len, hv.Cap = mkAtom(name+".off", intT), mkAtom(name+".len", intT), mkAtom(name+".cap", intT)
			d.atoms[i] = hv
		}
		if nv, ok := setPath(ds.mem[c.obj], c.path, d.atoms[i]); ok {
			ds.mem[c.obj] = nv
		}
	}
	ip.discover[lp] = d
	savedPaths := ip.npaths
	ip.execLoop(fr.fork(), lp, pred, ds)
	ip.npaths = savedPaths
	delete(ip.discover, lp)
	if os.Getenv("VERIF_DEBUG_DISC") != "" {
		fmt.Fprintf(os.Stderr, "DISC loop@%v cands=%d failed=%v seen=%v steps=%v\n", ip.fset.Position(firstPos(lp.header)), len(cands), d.failed, d.seen, d.steps)
	}
	if d.failed || !d.seen {
		return nil
	}
	if probe {
		// second run: only the fields that change are havoc'd, the others keep their values (a stride, a bound)
		var moving []leafRef
		for i, c := range cands {
			if d.changed[i] {
				moving = append(moving, c)
			}
		}
		if len(moving) == 0 {
			return nil
		}
		return ip.discoverFields2(fr, lp, pred, st, moving, false)
	}
	var out []fieldIV
	for i, c := range cands {
		if d.steps[i] == nil {
			continue
		}
		if z, ok := normInt(d.steps[i]).IsConst(); ok && z.Sign() == 0 {
			continue
		}
		cur, _ := getPath(st.mem[c.obj], c.path)
		switch x := cur.(type) {
		case *Term:
			out = append(out, fieldIV{obj: c.obj, path: c.path, initT: x, stepT: d.steps[i]})
		case SliceV:
			out = append(out, fieldIV{obj: c.obj, path: c.path, initS: x, stepC: d.steps[i], slice: true})
		}
	}
	return out
}

// sameMemExcept is sameMem that skips the carried objects (their fields are checked against their step).
func sameMemExcept(before map[*Object]string, st *State, skip map[*Object]bool) bool {
	for o, v := range st.mem {
		if skip[o] {
			continue
		}
		k, ok := before[o]
		if !ok {
			continue
		}
		if k != valKey(v) {
			return false
		}
	}
	return true
}

// addressStaysLocal: go/ssa marks a local whose address is passed to a call as a heap cell. When the address (and
// every field address derived from it) is only loaded from, stored through, or handed as an argument to static
// in-package callees that treat their parameter the same way, the cell does not outlive the frame (a cursor struct
// with pointer-receiver methods). The compiler's own verdict is cross-checked by E6.
func addressStaysLocal(v ssa.Value, depth int) bool {
	refs := v.Referrers()
	if refs == nil || depth > 6 {
		return false
	}
	for _, r := range *refs {
		switch y := r.(type) {
		case *ssa.Store:
			if y.Val == v {
				return false // the address itself is stored
			}
		case *ssa.UnOp:
			if y.Op != token.MUL {
				return false
			}
		case *ssa.FieldAddr:
			if !addressStaysLocal(y, depth+1) {
				return false
			}
		case *ssa.IndexAddr:
			if !addressStaysLocal(y, depth+1) {
				return false
			}
		case *ssa.ChangeType:
			// instantiation wrappers re-type the pointer without changing it
			if _, isP := y.Type().Underlying().(*types.Pointer); !isP || !addressStaysLocal(y, depth) {
				return false
			}
		case *ssa.DebugRef:
		case *ssa.Call:
			com := y.Common()
			callee := com.StaticCallee()
			if callee != nil && len(callee.Blocks) == 0 && callee.Origin() != nil {
				callee = callee.Origin() // a method of a generic type called from a generic body
			}
			if callee == nil || len(callee.Blocks) == 0 || com.IsInvoke() || callee.Signature.Variadic() {
				return false
			}
			args := com.Args
			for i, a := range args {
				if a != v {
					continue
				}
				if i >= len(callee.Params) || !addressStaysLocal(callee.Params[i], depth+1) {
					return false
				}
			}
		default:
			return false
		}
	}
	return true
}

// typeArgsOf maps the type parameters of a generic function to the type arguments it is called with: from the
// instance's own type arguments, or inherited when an instantiation wrapper calls its generic origin.
func typeArgsOf(callee *ssa.Function, outer map[*types.TypeParam]types.Type) map[*types.TypeParam]types.Type {
	if callee == nil {
		return nil
	}
	out := map[*types.TypeParam]types.Type{}
	for k, v := range outer {
		out[k] = v
	}
	if o := callee.Origin(); o != nil && len(callee.TypeArgs()) > 0 {
		tps := o.TypeParams()
		for i := 0; tps != nil && i < tps.Len() && i < len(callee.TypeArgs()); i++ {
			ta := callee.TypeArgs()[i]
			if tp, ok := ta.(*types.TypeParam); ok && outer[tp] != nil {
				ta = outer[tp]
			}
			out[tps.At(i)] = ta
		}
	}
	if len(out) == 0 {
		return nil
	}
	return out
}

// methodOf finds the package function that implements the method for the given (possibly generic) named type.
func (ip *Interp) methodOf(t types.Type, m *types.Func) *ssa.Function {
	for _, tt := range []types.Type{t, types.NewPointer(t)} {
		sel := types.NewMethodSet(tt).Lookup(m.Pkg(), m.Name())
		if sel == nil {
			continue
		}
		if _, isPtrRecv := sel.Recv().(*types.Pointer); isPtrRecv && tt == t {
			continue
		}
		f, ok := sel.Obj().(*types.Func)
		if !ok {
			continue
		}
		if tt != t {
			continue // a pointer-receiver method needs the address of the value: not modelled
		}
		if fn := ip.prog.FuncValue(f.Origin()); fn != nil && len(fn.Blocks) > 0 && ip.inPackage(fn) {
			return fn
		}
	}
	return nil
}
