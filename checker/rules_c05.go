package main

import (
	"fmt"
	"go/token"
	"go/types"
	"math/big"
	"strings"

	"golang.org/x/tools/go/ssa"
)

var bigOne = big.NewInt(1)

var conversionNames = []string{"FloatAsFloat", "FloatAsSigned", "FloatAsUnsigned", "SignedAsFloat", "SignedAsSigned", "SignedAsUnsigned",
	"UnsignedAsFloat", "UnsignedAsSigned", "UnsignedAsUnsigned"}

// discoverConversions returns the nine known conversions plus every other exported package-level function with the
// same signature shape (src, dst *Buffer) int: a sibling added later must satisfy the same rules.
func (c *Checker) discoverConversions() []string {
	names := append([]string{}, conversionNames...)
	have := map[string]bool{}
	for _, n := range names {
		have[n] = true
	}
	for _, fn := range c.entryFunctions() {
		if fn.Signature.Recv() != nil || !fnExported(fn) || have[fn.Name()] || len(fn.Params) != 2 {
			continue
		}
		if !isBufferPtr(fn.Params[0].Type()) || !isBufferPtr(fn.Params[1].Type()) {
			continue
		}
		// a format conversion has its own element type on either side (`FixedAsFixed[S, D]`); a function over two
		// buffers of one element type (`Mix[T]`, `Copy[T]`) combines or compares, it does not convert
		if types.Identical(fn.Params[0].Type(), fn.Params[1].Type()) {
			continue
		}
		res := fn.Signature.Results()
		if res.Len() == 1 && isIntLike(res.At(0).Type()) {
			names = append(names, fn.Name())
			have[fn.Name()] = true
		}
	}
	return names
}

func checkC05(c *Checker) {
	c.rule("C05-R1", "every loop is a counting loop over i < N = min(len(src.data), len(dst.data)), N computed before any store", 9)
	c.rule("C05-R2", "the only store of an iteration is dst.data[i] <- g(src.data[i]); every other operand of g derives from the two bit depths only", 9)
	c.rule("C05-R3", "no header store, no store to the source, no global or external effect", 9)
	c.rule("C05-R4", "returns 0 on the exit taken when N == 0, otherwise min(Length(src), Length(dst))", 9)
	c.rule("C05-R5", "FloatAsFloat: g is a pure floating conversion (no comparison, no arithmetic): exact or nearest, never clipping", 1)
	c.Assumptions = append(c.Assumptions, "channels >= 1", "when source and destination are the same buffer the iteration still reads position i before writing it (position-wise form)")
	nLoops := 0
	for _, name := range c.discoverConversions() {
		fn := c.anchor("C05-R1", name)
		if fn == nil {
			continue
		}
		s := c.Summary(fn)
		if c.undecidedEffects("C05-R1", name, s) {
			continue
		}
		if len(fn.Params) != 2 || !isBufferPtr(fn.Params[0].Type()) || !isBufferPtr(fn.Params[1].Type()) {
			c.undecided("C05-R1", name, c.pos(fn.Pos()), "expected (src, dst *Buffer) parameters")
			continue
		}
		src, dst := buf{paramName(fn, 0)}, buf{paramName(fn, 1)}
		assume := shapeAssume(src, dst)
		N := specMin(src.lenT(), dst.lenT())
		guardNE := Cond{Kind: CNE0, P: normSign(normInt(src.ch()).Sub(normInt(dst.ch())))}
		for _, o := range panicPaths(s) {
			if !hasFact(o.St.facts, guardNE) {
				c.refuted("C05-R3", name+"/panic-path", c.pos(o.Pos), "explicit panic path other than the channel guard: "+o.St.facts.String(), "")
			}
		}
		emptyCond := Cond{Kind: CEQ0, P: normSign(normInt(N))}
		okR1, okR2, okR3, okR4, okR5 := true, true, true, true, true
		var d1, d2, d3, d4, d5 string
		nret, nEmpty := 0, 0
		loopsSeen := map[int]bool{}
		for _, o := range retPaths(s) {
			if !feasible(o, assume) {
				continue
			}
			nret++
			m := mods(o)
			// effects in loops that the path's own conditions empty (a helper that returned 0) did not happen
			m = nonVacuous(m, o.St.facts)
			ret := valTerm(o.Ret)
			if o.St.facts.eval(emptyCond) == Yes {
				nEmpty++
				if len(m) != 0 {
					okR3, d3 = false, "effects on the empty-prefix exit: "+describeEffects(m)
				}
				if z, ok := normIntConst(ret); !ok || z != 0 {
					okR4, d4 = false, "the N == 0 exit returns "+pretty(canonOrNil(ret))
				}
				continue
			}
			want := specMin(src.length(), dst.length())
			here := assume.clone()
			for _, fc := range o.St.facts.list {
				here.add(fc)
			}
			if ret == nil || !eqUnder(ret, want, here) {
				okR4, d4 = false, fmt.Sprintf("returns %s, expected min(Length(src), Length(dst))", pretty(canonOrNil(ret)))
			}
			var stores []*Effect
			for _, e := range m {
				if e.Kind != EStoreElem || e.Stor.Name != dst.stor() {
					okR3, d3 = false, "effect other than a destination sample store: "+e.String()
					continue
				}
				if len(e.Loops) != 1 || !(eqInt(e.Loops[0].Trip, N) || eqUnder(e.Loops[0].Trip, N, here)) {
					okR1, d1 = false, "store outside a loop over i < min(len(src), len(dst)): "+e.String()
					continue
				}
				l := e.Loops[0]
				loopsSeen[l.ID] = true
				// position of this iteration: i, or N-1-i for a loop that walks down - the latter only where source and
				// destination can never have the same element type (float <-> fixed), because the order of a conversion
				// is observable when windows of one element type overlap
				posT := l.K
				if !eqInt(e.Idx, l.K) {
					rev := mkBin(token.SUB, mkBin(token.SUB, l.Trip, mkInt(1, intT), intT), l.K, intT)
					if eqInt(e.Idx, rev) && c.crossKind(name) {
						posT = rev
					} else {
						okR2, d2 = false, "store position is not the loop index: "+e.String()
					}
				}
				stores = append(stores, e)
				v := valTerm(e.Val)
				if v == nil {
					okR2, d2 = false, "stored value is not scalar"
					continue
				}
				checkDeps := func(x *Term, what string) {
					for _, ld := range elemLoads(x) {
						if !isElemOf(ld, src.stor(), posT) {
							okR2, d2 = false, what+" reads "+pretty(canon(ld))+", not source sample i"
						}
					}
					x.walk(func(y *Term) bool {
						if y.Op == OpElem {
							return false // the position of a load is checked above, not part of the kernel's inputs
						}
						if y.Op == OpAtom && y.Loop == nil && y.Name != src.name+hdrLayout.depthSuffix() && y.Name != dst.name+hdrLayout.depthSuffix() && !strings.HasPrefix(y.Name, "sizeof(") {
							okR2, d2 = false, what+" depends on "+y.Name+" (neither the sample nor a bit depth)"
						}
						if y.Op == OpUnknown {
							okR2, d2 = false, what+" contains an unknown value: "+y.Name
						}
						return true
					})
				}
				checkDeps(v, "kernel")
				// branch decisions taken inside the iteration
				if l.FactBase <= len(e.Facts.list) {
					for _, f := range e.Facts.list[l.FactBase:] {
						if f.Tag == "axiom" || f.Tag == "loop" {
							continue
						}
						checkDeps(f.Term(), "branch condition of the kernel")
					}
				}
				if name == "FloatAsFloat" {
					inner, n := stripConv(v)
					pure := inner.Op == OpElem && n <= 2
					if n == 2 {
						// only a widening to float64 may sit in between
						mid := v.Args[0]
						pure = pure && kindOf(mid.Typ).Float && kindOf(mid.Typ).Bits == 64
					}
					if !pure {
						okR5, d5 = false, "FloatAsFloat kernel is not a pure conversion: "+pretty(canon(v))
					}
					for _, f := range nonAxiomFacts(e.Facts)[:] {
						if f.Tag != "loop" && f.Kind == COther && strings.Contains(f.Key(), "elem(") {
							okR5, d5 = false, "FloatAsFloat kernel branches on the sample: "+f.String()
						}
					}
				}
			}
			for i, e1 := range stores {
				for _, e2 := range stores[i+1:] {
					if e1.Loops[0] == e2.Loops[0] && !contradict(e1.Facts, e2.Facts) {
						okR2, d2 = false, "two stores in one iteration: "+e1.String()+" and "+e2.String()
					}
				}
			}
			if len(m) == 0 {
				okR2, d2 = false, "a non-empty conversion path stores nothing"
			}
		}
		nLoops += len(loopsSeen)
		if nret == 0 {
			c.undecided("C05-R1", name, c.pos(fn.Pos()), "no feasible return path")
			continue
		}
		if nEmpty == 0 {
			// without the early exit the general path must still return 0 for N == 0: min(Length, Length) does, accept
		}
		p := c.pos(fn.Pos())
		c.expect(okR1, "C05-R1", name, p, fmt.Sprintf("%d loops over i < %s", len(loopsSeen), pretty(N)), d1)
		c.expect(okR2, "C05-R2", name, p, "one store dst.data[i] <- g(src.data[i]) per iteration", d2)
		c.expect(okR3, "C05-R3", name, p, "no other effect", d3)
		c.expect(okR4, "C05-R4", name, p, "0 / min(Length(src), Length(dst))", d4)
		if name == "FloatAsFloat" {
			c.expect(okR5, "C05-R5", name, p, "pure conversion", d5)
		}
	}
	c.Extra["loops"] = nLoops
}

// ---------------- C15 ----------------

type guardSpec struct {
	fn   string
	inst string
	ops  func(fn *ssa.Function) (*Term, *Term, bool)
	view func(fn *ssa.Function, f *Facts) *Facts // optional: how the path facts are read (pool: through the constructor model)
}

func guardTable(c *Checker) []guardSpec {
	var t []guardSpec
	twoBufs := func(fn *ssa.Function) (*Term, *Term, bool) {
		if len(fn.Params) != 2 || !isBufferPtr(fn.Params[0].Type()) || !isBufferPtr(fn.Params[1].Type()) {
			return nil, nil, false
		}
		return buf{paramName(fn, 0)}.ch(), buf{paramName(fn, 1)}.ch(), true
	}
	for _, n := range c.discoverConversions() {
		t = append(t, guardSpec{n, n, twoBufs, nil})
	}
	t = append(t, guardSpec{"(*Buffer[D]).Append", "Buffer.Append", twoBufs, nil})
	striped := func(fn *ssa.Function) (*Term, *Term, bool) {
		bn, sn := findParams(fn)
		if bn == "" || sn == "" {
			return nil, nil, false
		}
		return buf{bn}.ch(), mkAtom("len("+sn+")", intT), true
	}
	t = append(t, guardSpec{"ReadStriped", "ReadStriped", striped, nil}, guardSpec{"WriteStriped", "WriteStriped", striped, nil})
	t = append(t, guardSpec{"(*PoolAllocator[T]).Put", "PoolAllocator.Put", func(fn *ssa.Function) (*Term, *Term, bool) {
		if len(fn.Params) != 2 || !isBufferPtr(fn.Params[1].Type()) {
			return nil, nil, false
		}
		// the pool's total capacity is what its New function allocates (constructor model); Put's conditions on
		// the PoolAllocator's fields are read through the values the constructor gave them
		pm := c.poolModel()
		if !pm.ok || !pm.newOK || pm.newCap == nil {
			return nil, nil, false
		}
		return pm.newCap, buf{paramName(fn, 1)}.capT(), true
	}, func(fn *ssa.Function, f *Facts) *Facts { return c.poolModel().factsThrough(paramName(fn, 0), f) }})
	return t
}

func checkC15(c *Checker) {
	c.rule("C15-G1", "a panic path exists that is taken exactly when the two shape operands differ, and nothing has been modified on it", 13)
	c.rule("C15-G2", "every effect on existing memory (element store, header store, pool call, SetCap) is preceded by the equality of the two shape operands on its path", 13)
	c.Assumptions = append(c.Assumptions, "panic(...) unwinds without further effects (the package has no defer/recover)")
	nEff := 0
	for _, g := range guardTable(c) {
		fn := c.anchor("C15-G1", g.fn)
		if fn == nil {
			continue
		}
		s := c.Summary(fn)
		if c.undecidedEffects("C15-G1", g.inst, s) {
			continue
		}
		a, b, ok := g.ops(fn)
		if !ok {
			c.undecided("C15-G1", g.inst, c.pos(fn.Pos()), "cannot resolve the guard operands from the signature")
			continue
		}
		d := normSign(normInt(a).Sub(normInt(b)))
		ne, eq := Cond{Kind: CNE0, P: d}, Cond{Kind: CEQ0, P: d}
		found := false
		okClean := true
		detail := ""
		view := func(f *Facts) *Facts {
			if g.view != nil {
				return g.view(fn, f)
			}
			return f
		}
		for _, o := range panicPaths(s) {
			if hasFact(view(o.St.facts), ne) {
				found = true
				if m := mods(o); len(m) > 0 {
					okClean = false
					detail = "modified before the panic: " + describeEffects(m)
				}
			}
		}
		if !found {
			c.refuted("C15-G1", g.inst, c.pos(fn.Pos()), fmt.Sprintf("no panic path guarded by %s != %s", pretty(canon(a)), pretty(canon(b))), "call with differing shapes returns instead of panicking")
		} else {
			c.expect(okClean, "C15-G1", g.inst, c.pos(fn.Pos()), fmt.Sprintf("panics iff %s != %s, before any effect", pretty(canon(a)), pretty(canon(b))), detail)
		}
		okDom := true
		ddetail := ""
		where := c.pos(fn.Pos())
		for _, o := range s.Outcomes {
			for _, e := range mods(o) {
				nEff++
				if !hasFact(view(e.Facts), eq) {
					okDom = false
					ddetail = "effect not dominated by the guard: " + e.String()
					where = c.effPos(e)
				}
			}
		}
		c.expect(okDom, "C15-G2", g.inst, where, "all effects dominated by the guard", ddetail)
	}
	c.Extra["effect_instructions_checked"] = nEff
}

// contradict reports whether two fact sets contain a complementary pair
// (the effects they belong to lie on different paths).
func contradict(a, b *Facts) bool {
	keys := map[string]bool{}
	for _, c := range a.list {
		keys[c.Key()] = true
	}
	for _, c := range b.list {
		if keys[c.Not().Key()] {
			return true
		}
	}
	return false
}

// crossKind: in every instantiation of the conversion one of source and destination is a float type and the other an
// integer type, so the two buffers can never share storage.
func (c *Checker) crossKind(name string) bool {
	n := 0
	for k := range c.W.Funcs {
		i := strings.Index(k, name+"[")
		if i < 0 || !strings.HasSuffix(k, "]") || strings.Contains(k, "$") {
			continue
		}
		args := strings.Split(k[i+len(name)+1:len(k)-1], ",")
		if len(args) != 2 {
			continue
		}
		ts, td := c.typeByName(strings.TrimPrefix(strings.TrimSpace(args[0]), c.W.Pkg.PkgPath+".")), c.typeByName(strings.TrimPrefix(strings.TrimSpace(args[1]), c.W.Pkg.PkgPath+"."))
		if ts == nil || td == nil {
			return false
		}
		ks, kd := kindOf(ts), kindOf(td)
		if !ks.OK || !kd.OK || ks.Float == kd.Float {
			return false
		}
		n++
	}
	return n > 0
}
