package main

import (
	"fmt"
	"math/big"
	"sort"
	"strings"

	"golang.org/x/tools/go/ssa"
)

type intPiece struct {
	pc piece
	f  Form
	kp kernelPiece
}

type fixedKernel struct {
	inst    string
	fn      *ssa.Function
	S, D    string
	ks, kd  numKind
	ds, dd  int64
	pieces  []intPiece
	err     error  // UNDECIDED reason
	refute  string // S0 refutation
	witness string
}

func fixedFnName(sSigned, dSigned bool) string {
	n := map[bool]string{true: "Signed", false: "Unsigned"}
	return n[sSigned] + "As" + n[dSigned]
}

func intTypeNames() []string {
	return append(append([]string{}, signedTypes...), unsignedTypes...)
}

func (c *Checker) instFn(name, s, d string) *ssa.Function {
	return c.W.Fn(fmt.Sprintf("%s[%s,%s]", name, s, d))
}

// analyseFixed builds the piece-wise ideal forms of one fixed-point conversion instantiation.
func (c *Checker) analyseFixed(s, d string) *fixedKernel {
	ks, kd := kindOf(c.typeByName(s)), kindOf(c.typeByName(d))
	fk := &fixedKernel{S: s, D: d, ks: ks, kd: kd}
	name := fixedFnName(ks.Signed, kd.Signed)
	fk.inst = fmt.Sprintf("%s[%s,%s]", name, s, d)
	fk.fn = c.instFn(name, s, d)
	if fk.fn == nil {
		fk.err = e4fail("instantiation %s not found", fk.inst)
		return fk
	}
	var ok1, ok2 bool
	fk.ds, ok1 = c.depthOf(s)
	fk.dd, ok2 = c.depthOf(d)
	if !ok1 || !ok2 {
		fk.err = e4fail("bit depth of %s or %s does not evaluate to a constant", s, d)
		return fk
	}
	k, err := c.extractKernel(fk.fn, fk.ds, fk.dd)
	if err != nil {
		fk.err = err
		return fk
	}
	mn, mx := ks.minMax()
	dmn, dmx := kd.minMax()
	for _, kp := range k.pieces {
		ev := &intEval{pc: piece{new(big.Int).Set(mn), new(big.Int).Set(mx)}, src: ks, isSample: k.sample}
		for _, cd := range kp.conds {
			if err := ev.split(cd.Orig, cd.OrigNeg); err != nil {
				fk.err = err
				return fk
			}
			if ev.pc.empty() {
				break
			}
		}
		if ev.pc.empty() {
			continue
		}
		v, err := ev.eval(kp.val)
		if err != nil {
			fk.err = err
			return fk
		}
		if v.k.Bits != kd.Bits || v.k.Signed != kd.Signed {
			fk.err = e4fail("stored value has type of %d bits, destination %d", v.k.Bits, kd.Bits)
			return fk
		}
		if v.m != kd.Bits {
			fk.err = e4fail("stored value is only known modulo 2^%d (destination width %d) on piece %s: %s", v.m, kd.Bits, ev.pc, v.f)
			return fk
		}
		if v.lo.Cmp(dmn) < 0 || v.hi.Cmp(dmx) > 0 {
			x := ev.pc.lo
			if v.hi.Cmp(dmx) > 0 {
				x = ev.pc.hi
			}
			fk.refute = fmt.Sprintf("stored value %s leaves the range of %s on piece %s: ideal result %s wraps around", v.f, d, ev.pc, v.f.eval(x))
			fk.witness = fmt.Sprintf("source sample %s of type %s", x, s)
			return fk
		}
		fk.pieces = append(fk.pieces, intPiece{pc: ev.pc, f: v.f, kp: kp})
	}
	sort.Slice(fk.pieces, func(i, j int) bool { return fk.pieces[i].pc.lo.Cmp(fk.pieces[j].pc.lo) < 0 })
	// the pieces must partition the source range
	cur := new(big.Int).Set(mn)
	for _, p := range fk.pieces {
		if p.pc.lo.Cmp(cur) != 0 {
			fk.err = e4fail("pieces do not partition the source range: gap or overlap at %s", cur)
			return fk
		}
		cur = new(big.Int).Add(p.pc.hi, big.NewInt(1))
	}
	if cur.Cmp(new(big.Int).Add(mx, big.NewInt(1))) != 0 {
		fk.err = e4fail("pieces do not cover the source range up to %s", mx)
	}
	return fk
}

func (fk *fixedKernel) at(x *big.Int) (*big.Int, bool) {
	for _, p := range fk.pieces {
		if x.Cmp(p.pc.lo) >= 0 && x.Cmp(p.pc.hi) <= 0 {
			return p.f.eval(x), true
		}
	}
	return nil, false
}

func zeroCode(k numKind, depth int64) *big.Int {
	if k.Signed {
		return big.NewInt(0)
	}
	return new(big.Int).Lsh(big.NewInt(1), uint(depth-1))
}

func codeRange(k numKind, depth int64) (*big.Int, *big.Int) {
	// lowest and highest code of a format of the given depth
	if k.Signed {
		h := new(big.Int).Lsh(big.NewInt(1), uint(depth-1))
		return new(big.Int).Neg(h), new(big.Int).Sub(h, big.NewInt(1))
	}
	h := new(big.Int).Lsh(big.NewInt(1), uint(depth))
	return big.NewInt(0), h.Sub(h, big.NewInt(1))
}

func (c *Checker) allFixed() []*fixedKernel {
	var out []*fixedKernel
	for _, s := range intTypeNames() {
		for _, d := range intTypeNames() {
			out = append(out, c.analyseFixed(s, d))
		}
	}
	// named element types (type Sample int16 ...): the kernels must behave as for the underlying type
	named := append(namedSigned(), namedUnsigned()...)
	for _, s := range named {
		for _, d := range named {
			out = append(out, c.analyseFixed(s, d))
		}
	}
	return out
}

// soundness (S0) is reported under the given rule id for both C06 and C07.
func (c *Checker) reportS0(rule string, fk *fixedKernel) bool {
	p := ""
	if fk.fn != nil {
		p = c.pos(fk.fn.Pos())
	}
	switch {
	case fk.err != nil:
		c.e4report(rule, fk.inst, p, fk.err)
		return false
	case fk.refute != "":
		c.refuted(rule, fk.inst, p, fk.refute, fk.witness)
		return false
	}
	desc := ""
	for _, pc := range fk.pieces {
		desc += fmt.Sprintf("%s: %s; ", pc.pc, pc.f)
	}
	c.proved(rule, fk.inst, p, desc)
	return true
}

// depthInvariant checks the premise the numeric rules rest on: the bit depth (and channel count) of an existing
// buffer is never written, so it stays the value Alloc derived from the element type (Slice copies it).
func depthInvariant(c *Checker, rule string) {
	c.rule(rule, "premise: no function writes the bitDepth or channels field of an existing buffer, and every header that is built gets its depth from getBitDepth (8*sizeof(T)) or from another header, so a buffer's depth is the depth of its element type", 2)
	ok := true
	detail := ""
	n := 0
	for _, fn := range c.entryFunctions() {
		s := c.Summary(fn)
		n++
		for _, o := range s.Outcomes {
			for _, e := range o.St.effects {
				if e.Kind != EStoreField || e.Obj == nil || !isBufferType(e.Obj.Typ) {
					continue
				}
				fi := bufferFields(e.Obj.Typ)
				if fi == nil {
					ok, detail = false, "cannot resolve the fields of Buffer"
					continue
				}
				if len(e.Path) == 0 {
					ok, detail = false, fmt.Sprintf("%s overwrites the whole header of an existing buffer at %s", shortFn(c.W, fn), c.effPos(e))
				} else if pathTouches(e.Path, fi.bitDepth) || pathTouches(e.Path, fi.channels) {
					ok, detail = false, fmt.Sprintf("%s writes the bit depth / channel count of an existing buffer at %s", shortFn(c.W, fn), c.effPos(e))
				}
			}
		}
	}
	c.expect(ok, rule, "package/header-fields", "", fmt.Sprintf("%d functions: bitDepth and channels of existing buffers are never written", n), detail)
	// every header built anywhere gets its depth from the element type (getBitDepth) or from another header
	okF, dF, nF := true, "", 0
	for _, fn := range c.entryFunctions() {
		s := c.Summary(fn)
		for _, o := range s.Outcomes {
			if o.Kind != ORet {
				continue
			}
			for ob, v := range o.St.mem {
				if ob.Kind != OFresh || !isBufferType(ob.Typ) {
					continue
				}
				fi := bufferFields(ob.Typ)
				sv, isS := v.(StructV)
				if fi == nil || !isS || fi.at(sv, fi.bitDepth) == nil {
					okF, dF = false, fmt.Sprintf("%s builds a buffer header that cannot be resolved", shortFn(c.W, fn))
					continue
				}
				nF++
				t := valTerm(fi.at(sv, fi.bitDepth))
				good := false
				if t != nil {
					ct := canon(t)
					switch {
					case ct.Op == OpAtom && strings.HasSuffix(ct.Name, hdrLayout.depthSuffix()):
						good = true
					default:
						// a function of the element size that gives 8*size for every size a SignalTypes element can have
						if a := sizeofAtomOf(ct); a.Name != "sizeof(?)" {
							good = true
							for _, sz := range []int64{1, 2, 4, 8} {
								v := canon(ct.subst(map[string]*Term{a.Name: mkInt(sz, a.Typ)}))
								if z, ok := normIntConst(v); !ok || z != 8*sz {
									good = false
								}
							}
						}
					}
				}
				if !good {
					okF, dF = false, fmt.Sprintf("%s builds a buffer header whose bit depth is %s (neither 8*sizeof(T) for every element size nor a copy of another header's) at %s", shortFn(c.W, fn), pretty(canonOrNil(t)), c.pos(ob.Pos))
				}
			}
		}
	}
	c.expect(okF, rule, "package/fresh-headers", "", fmt.Sprintf("%d header constructions take the depth from the element type or from another header", nF), dF)
}

// sizeofAtomOf returns the first sizeof(T) atom of a term (or a dummy atom).
func sizeofAtomOf(t *Term) *Term {
	var a *Term
	t.walk(func(x *Term) bool {
		if a == nil && x.Op == OpAtom && strings.HasPrefix(x.Name, "sizeof(") {
			a = x
		}
		return a == nil
	})
	if a == nil {
		return mkAtom("sizeof(?)", intT)
	}
	return a
}

func checkC06(c *Checker) {
	depthInvariant(c, "C06-D0")
	c.rule("C06-S0", "soundness of every stored value: congruence modulus = destination width and the ideal form stays inside the destination range on every piece (the stored code is the ideal form for every source value)", 121)
	c.rule("C06-a", "order: every piece is monotone non-decreasing and images are ordered at every piece boundary", 121)
	c.rule("C06-b", "reference levels: lowest, zero-amplitude and highest source code map to the corresponding destination codes", 121)
	c.Assumptions = append(c.Assumptions, "bit depth of a buffer = the value getBitDepth evaluates to for its element type (C12-V1: set only by Alloc, copied by Slice)")
	c.Trusted = append(c.Trusted, "transfer functions of DESIGN appendix C.1 (congruence + ideal form)")
	for _, fk := range c.allFixed() {
		if !c.reportS0("C06-S0", fk) {
			continue
		}
		p := c.pos(fk.fn.Pos())
		// order
		ok := true
		detail, wit := "", ""
		for i := 1; i < len(fk.pieces); i++ {
			a, b := fk.pieces[i-1], fk.pieces[i]
			va, vb := a.f.eval(a.pc.hi), b.f.eval(b.pc.lo)
			if va.Cmp(vb) > 0 {
				ok = false
				detail = fmt.Sprintf("order inverted at the piece boundary: %s -> %s but %s -> %s", a.pc.hi, va, b.pc.lo, vb)
				wit = fmt.Sprintf("source samples %s and %s", a.pc.hi, b.pc.lo)
			}
		}
		if ok {
			c.proved("C06-a", fk.inst, p, fmt.Sprintf("%d monotone pieces, boundaries ordered", len(fk.pieces)))
		} else {
			c.refuted("C06-a", fk.inst, p, detail, wit)
		}
		// reference levels
		slo, shi := codeRange(fk.ks, fk.ds)
		dlo, dhi := codeRange(fk.kd, fk.dd)
		refs := []struct {
			name string
			x, y *big.Int
		}{{"lowest", slo, dlo}, {"zero", zeroCode(fk.ks, fk.ds), zeroCode(fk.kd, fk.dd)}, {"highest", shi, dhi}}
		okR := true
		dR := ""
		for _, r := range refs {
			got, found := fk.at(r.x)
			if !found || got.Cmp(r.y) != 0 {
				okR = false
				dR = fmt.Sprintf("%s code %s maps to %v, expected %s", r.name, r.x, got, r.y)
			}
		}
		if okR {
			c.proved("C06-b", fk.inst, p, "lowest/zero/highest preserved")
		} else {
			c.refuted("C06-b", fk.inst, p, dR, dR)
		}
	}
}

// neighbour checks that f(x) - offD is floor or ceil of (x - offS)/2^k on the piece.
func neighbour(f Form, pc piece, offS, offD *big.Int, k int64) (bool, string) {
	Dv := new(big.Int).Lsh(big.NewInt(1), uint(k))
	if k == 0 {
		a, b, ok := f.linear()
		if f.Mode != mExact && f.D.Cmp(big.NewInt(1)) == 0 {
			a, b, ok = f.A, new(big.Int).Add(f.B, f.C), true
		}
		if !ok || a.Cmp(big.NewInt(1)) != 0 {
			return false, "same-depth conversion is not of the form x + c: " + f.String()
		}
		want := new(big.Int).Sub(offD, offS)
		if b.Cmp(want) != 0 {
			return false, fmt.Sprintf("same-depth conversion shifts amplitudes: code offset %s, expected %s", b, want)
		}
		return true, ""
	}
	if f.A.Cmp(big.NewInt(1)) != 0 || f.D.Cmp(Dv) != 0 || f.Mode == mExact {
		return false, fmt.Sprintf("narrowing by %d bits is not a division of the amplitude by 2^%d: %s", k, k, f.String())
	}
	r := new(big.Int).Add(f.B, offS) // numerator = amplitude + r
	cp := new(big.Int).Sub(f.C, offD)
	mode := f.Mode
	if mode == mTrunc && r.Sign() != 0 {
		nlo := new(big.Int).Add(pc.lo, f.B)
		nhi := new(big.Int).Add(pc.hi, f.B)
		switch {
		case nlo.Sign() >= 0:
			mode = mFloor
		case nhi.Sign() <= 0:
			mode = mFloor
			r = new(big.Int).Add(r, new(big.Int).Sub(Dv, big.NewInt(1))) // ceil(y/D) = floor((y+D-1)/D)
		default:
			return false, "truncating division of a shifted amplitude that changes sign on the piece: " + f.String()
		}
	}
	q := floorDiv(r, Dv)
	if new(big.Int).Add(q, cp).Sign() != 0 {
		return false, fmt.Sprintf("result is off by %s steps from the scaled amplitude: %s", new(big.Int).Add(q, cp), f.String())
	}
	return true, ""
}

func offsetOf(k numKind, depth int64) *big.Int {
	if k.Signed {
		return big.NewInt(0)
	}
	return new(big.Int).Lsh(big.NewInt(1), uint(depth-1))
}

func checkC07(c *Checker) {
	depthInvariant(c, "C07-D0")
	c.rule("C07-S0", "soundness of every stored value (as C06-S0)", 121)
	c.rule("C07-a", "accuracy: when narrowing by k bits the result amplitude is floor or ceil of amplitude/2^k on every piece; at equal depth it is the amplitude itself", 60)
	c.rule("C07-b", "round trip: for every widening pair the composition with the narrowing conversion back to the original format is the identity on every piece", 30)
	c.Assumptions = append(c.Assumptions, "bit depth of a buffer = the value getBitDepth evaluates to for its element type")
	all := c.allFixed()
	byInst := map[string]*fixedKernel{}
	for _, fk := range all {
		byInst[fk.S+">"+fk.D] = fk
	}
	for _, fk := range all {
		if !c.reportS0("C07-S0", fk) {
			continue
		}
		p := c.pos(fk.fn.Pos())
		offS, offD := offsetOf(fk.ks, fk.ds), offsetOf(fk.kd, fk.dd)
		if fk.ds >= fk.dd {
			ok := true
			detail := ""
			for _, pc := range fk.pieces {
				if o, why := neighbour(pc.f, pc.pc, offS, offD, fk.ds-fk.dd); !o {
					ok, detail = false, fmt.Sprintf("on piece %s: %s", pc.pc, why)
				}
			}
			c.expect(ok, "C07-a", fk.inst, p, fmt.Sprintf("narrowing by %d bits: neighbour of amplitude/2^%d", fk.ds-fk.dd, fk.ds-fk.dd), detail)
			continue
		}
		// widening: compose with the narrowing conversion back
		back := byInst[fk.D+">"+fk.S]
		inst := fk.inst + " ; " + fmt.Sprintf("%s[%s,%s]", fixedFnName(fk.kd.Signed, fk.ks.Signed), fk.D, fk.S)
		if back == nil || back.err != nil || back.refute != "" {
			c.undecided("C07-b", inst, p, "the narrowing conversion back is not analysable (see its S0 obligation)")
			continue
		}
		ok := true
		detail, wit := "", ""
		for _, w := range fk.pieces {
			a, b, lin := w.f.linear()
			if !lin || a.Sign() <= 0 {
				ok, detail = false, "widening piece is not linear with positive slope: "+w.f.String()
				break
			}
			covered := new(big.Int).Set(w.pc.lo)
			for _, n := range back.pieces {
				// x with n.lo <= a·x + b <= n.hi
				lo := new(big.Int).Neg(floorDiv(new(big.Int).Neg(new(big.Int).Sub(n.pc.lo, b)), a)) // ceil((n.lo-b)/a)
				hi := floorDiv(new(big.Int).Sub(n.pc.hi, b), a)
				if lo.Cmp(w.pc.lo) < 0 {
					lo = w.pc.lo
				}
				if hi.Cmp(w.pc.hi) > 0 {
					hi = w.pc.hi
				}
				if lo.Cmp(hi) > 0 {
					continue
				}
				if lo.Cmp(covered) != 0 {
					ok, detail = false, fmt.Sprintf("image of the widening piece %s is not covered contiguously by the pieces of the narrowing conversion", w.pc)
				}
				covered = new(big.Int).Add(hi, big.NewInt(1))
				// composed form on [lo,hi]:  mode((An·(a x + b) + Bn)/Dn) + Cn
				A := new(big.Int).Mul(n.f.A, a)
				B := new(big.Int).Add(new(big.Int).Mul(n.f.A, b), n.f.B)
				if id, why, x := identityOn(A, B, n.f.D, n.f.C, n.f.Mode, lo, hi); !id {
					ok, detail = false, fmt.Sprintf("round trip is not the identity on [%s,%s]: %s", lo, hi, why)
					wit = fmt.Sprintf("source sample %s of type %s", x, fk.S)
				}
			}
			if covered.Cmp(new(big.Int).Add(w.pc.hi, big.NewInt(1))) != 0 && ok {
				ok, detail = false, fmt.Sprintf("widening piece %s not fully mapped into the narrowing conversion's domain", w.pc)
			}
		}
		if ok {
			c.proved("C07-b", inst, p, "composition is the identity on every piece")
		} else {
			c.refuted("C07-b", inst, p, detail, wit)
		}
	}
}

// identityOn: mode((A·x + B)/D) + C == x for all x in [lo,hi].
func identityOn(A, B, D, C *big.Int, mode divMode, lo, hi *big.Int) (bool, string, *big.Int) {
	if A.Cmp(D) != 0 {
		return false, fmt.Sprintf("scale factors do not cancel (%s/%s)", A, D), lo
	}
	if mode == mExact || D.Cmp(big.NewInt(1)) == 0 {
		if new(big.Int).Add(B, C).Sign() != 0 {
			return false, fmt.Sprintf("constant offset %s", new(big.Int).Add(B, C)), lo
		}
		return true, "", nil
	}
	checkFloor := func(b *big.Int) bool { return new(big.Int).Add(floorDiv(b, D), C).Sign() == 0 }
	if mode == mFloor {
		if !checkFloor(B) {
			return false, fmt.Sprintf("floor((%s·x + %s)/%s) + %s differs from x", A, B, D, C), lo
		}
		return true, "", nil
	}
	// trunc: floor where the numerator is >= 0, ceil where it is <= 0
	// numerator D·x + B >= 0  <=>  x >= ceil(-B/D)
	x0 := new(big.Int).Neg(floorDiv(B, D)) // ceil(-B/D)
	ceilB := new(big.Int).Add(B, new(big.Int).Sub(D, big.NewInt(1)))
	if hi.Cmp(x0) >= 0 { // some x with numerator >= 0
		if !checkFloor(B) {
			x := x0
			if lo.Cmp(x0) > 0 {
				x = lo
			}
			return false, fmt.Sprintf("trunc((%s·x + %s)/%s) + %s differs from x for non-negative numerators", A, B, D, C), x
		}
	}
	if lo.Cmp(x0) < 0 { // some x with numerator < 0: ceil((Dx+B)/D) = x + ceil(B/D) = x + floor((B+D-1)/D)
		if !checkFloor(ceilB) {
			return false, fmt.Sprintf("trunc((%s·x + %s)/%s) + %s differs from x for negative numerators", A, B, D, C), lo
		}
	}
	return true, "", nil
}
