package main

import (
	"fmt"
	"go/token"
	"go/types"
	"strings"

	"golang.org/x/tools/go/ssa"
)

// Val is an abstract value of the symbolic interpreter.
type Val interface{ isVal() }

type StorKind int

const (
	SEntry    StorKind = iota // backing array that exists on entry (reached from a parameter)
	SFresh                    // made by make() in this activation (zeroed)
	SGrown                    // result of an append that grows (or may grow)
	SArrayObj                 // the array held by an Object (e.g. go/ssa's varargs array)
)

// Storage is the identity of a backing array.
type Storage struct {
	ID        int
	Name      string
	Kind      StorKind
	Elem      types.Type
	Parent    *Storage // element of an outer slice-of-slices
	ParentIdx *Term
	From      *SliceV // SGrown: the slice it was grown from
	Added     *SliceV // SGrown: the appended elements
	May       bool    // SGrown: the append may or may not reallocate
	Obj       *Object // SArrayObj
	Pos       token.Pos
}

func (s *Storage) Key() string {
	if s == nil {
		return "<nilstor>"
	}
	return s.Name
}

type ObjKind int

const (
	OParam   ObjKind = iota // pointee of a pointer parameter (or reached from one)
	OFresh                  // allocated in this activation (new / &T{} / local)
	OFreeVar                // captured variable of a closure
	OGlobal
	OOpaque // result of an external call (e.g. sync.Pool.Get)
)

type Object struct {
	ID     int
	Name   string
	Kind   ObjKind
	Typ    types.Type // type of the content
	Heap   bool       // go/ssa says the allocation escapes
	Pos    token.Pos
	Instr  ssa.Instruction
	Root   string // name of the parameter it is reached from
	LoopID int    // innermost summarised loop it was allocated in (0: none)
}

type PtrV struct {
	Nil  bool
	Obj  *Object
	Path []int    // field / constant array index path inside Obj
	Stor *Storage // element pointer: &stor[Idx]
	Idx  *Term
	Typ  types.Type // pointee type
}

type SliceV struct {
	Nil  bool
	Stor *Storage
	Off  *Term
	Len  *Term
	Cap  *Term
	Elem types.Type
	// Stale is set when the header was loaded through a pointer that may alias
	// an object whose header was stored earlier on the path: its len/cap may
	// be out of date (the elements below the old length are not).
	Stale string
	// LenFresh: the length of a stale header was re-established by an explicit
	// high bound (s[:n]); only its capacity is still out of date.
	LenFresh bool
}

type StructV struct {
	Typ types.Type
	F   []Val
}

type ArrayV struct {
	Typ types.Type
	E   []Val
}

type IfaceV struct {
	Nil  bool
	Dyn  Val
	DynT types.Type
}

type ClosureV struct {
	Fn   *ssa.Function
	Bind []Val
	Pos  token.Pos
}

type FuncV struct{ Fn *ssa.Function }

type TupleV struct{ E []Val }

// ReflectV models a reflect.Value: either a value or (after Elem) the
// addressable variable a pointer refers to.
type ReflectV struct {
	Of   Val
	Addr *PtrV
}

type OpaqueV struct {
	Name string
	Typ  types.Type
}

type UnknownV struct {
	Why string
	Typ types.Type
}

func (PtrV) isVal()     {}
func (SliceV) isVal()   {}
func (StructV) isVal()  {}
func (ArrayV) isVal()   {}
func (IfaceV) isVal()   {}
func (ClosureV) isVal() {}
func (FuncV) isVal()    {}
func (TupleV) isVal()   {}
func (ReflectV) isVal() {}
func (OpaqueV) isVal()  {}
func (UnknownV) isVal() {}

func valString(v Val) string {
	switch x := v.(type) {
	case nil:
		return "<nil>"
	case *Term:
		return pretty(x)
	case PtrV:
		if x.Nil {
			return "nil"
		}
		if x.Stor != nil {
			return fmt.Sprintf("&%s[%s]", x.Stor.Name, pretty(x.Idx))
		}
		return fmt.Sprintf("&%s%s", x.Obj.Name, pathString(x.Path))
	case SliceV:
		if x.Nil {
			return "nil-slice"
		}
		return fmt.Sprintf("slice{%s off=%s len=%s cap=%s}", x.Stor.Name, pretty(x.Off), pretty(x.Len), pretty(x.Cap))
	case StructV:
		parts := make([]string, len(x.F))
		for i, f := range x.F {
			parts[i] = valString(f)
		}
		return "{" + strings.Join(parts, ", ") + "}"
	case ArrayV:
		parts := make([]string, len(x.E))
		for i, f := range x.E {
			parts[i] = valString(f)
		}
		return "[" + strings.Join(parts, ", ") + "]"
	case IfaceV:
		if x.Nil {
			return "nil-iface"
		}
		return "iface(" + valString(x.Dyn) + ")"
	case ClosureV:
		return "closure(" + x.Fn.Name() + ")"
	case FuncV:
		return "func(" + x.Fn.Name() + ")"
	case TupleV:
		parts := make([]string, len(x.E))
		for i, f := range x.E {
			parts[i] = valString(f)
		}
		return "(" + strings.Join(parts, ", ") + ")"
	case ReflectV:
		if x.Addr != nil {
			return "reflect.Value(*" + valString(*x.Addr) + ")"
		}
		return "reflect.Value(" + valString(x.Of) + ")"
	case OpaqueV:
		return "opaque(" + x.Name + ")"
	case UnknownV:
		return "?(" + x.Why + ")"
	}
	return fmt.Sprintf("%T", v)
}

func pathString(p []int) string {
	var sb strings.Builder
	for _, i := range p {
		fmt.Fprintf(&sb, ".%d", i)
	}
	return sb.String()
}

// valKey is a canonical key of a value (for equality checks in rules).
func valKey(v Val) string {
	switch x := v.(type) {
	case *Term:
		return x.Key()
	}
	return valString(v)
}

type EffKind int

const (
	EStoreElem  EffKind = iota // stor[idx] = val
	EStoreField                // field of a non-fresh object
	ECopy                      // region copy: dst stor [dstOff, dstOff+n) <- src slice
	EGrow                      // append that grows or may grow (allocation + prefix copy)
	ECall                      // call of an external function
	EAlloc                     // heap allocation site
	ESetCap                    // reflect SetCap / SetLen on an addressable slice
	EHazard                    // load of a header field that may alias an earlier header store
	EUndecided                 // the code left the idiom family the engine understands
	EIndex                     // bounds obligation of an index / slice expression (not a modification)
	EDiv                       // integer division / remainder, or float division feeding an int conversion
	EConvert                   // float -> int conversion site (E4 obligation)
	EClear                     // clear(slice) builtin: zero [off, off+len)
	ENarrow                    // integer -> integer conversion that cannot represent every source value (rule I0)
)

var effNames = map[EffKind]string{EStoreElem: "store-elem", EStoreField: "store-field", ECopy: "copy", EGrow: "grow",
	ECall: "call", EAlloc: "alloc", ESetCap: "setcap", EHazard: "alias-hazard", EUndecided: "undecided", EIndex: "index", EDiv: "div",
	EConvert: "convert", EClear: "clear", ENarrow: "narrow"}

type Effect struct {
	Kind   EffKind
	Pos    token.Pos
	Fn     *ssa.Function // function containing the instruction
	Stack  []*ssa.Function
	Sites  []token.Pos
	Stor   *Storage
	Idx    *Term // EStoreElem: storage-relative index; EIndex: view-relative index
	Val    Val
	Obj    *Object
	Path   []int
	Callee string
	Args   []Val
	Src    *SliceV // ECopy / EGrow
	Dst    *SliceV
	N      *Term // ECopy: number of elements; ESetCap: new cap
	Lo, Hi *Term // EIndex (slice expression): bounds; EIndex(index): Hi = len
	Max    *Term
	Note   string
	Facts  *Facts
	NFacts int
	Loops  []*LoopCtx
	Seq    int
	Body   int // id of the loop-body path it was recorded on (0 outside loops)
	Heap   bool
	Typ    types.Type
	Early  bool // EUndecided only: a return from inside a summarised loop (see execLoop); may-effect rules accept it
}

func (e *Effect) String() string {
	var sb strings.Builder
	sb.WriteString(effNames[e.Kind])
	switch e.Kind {
	case EStoreElem:
		fmt.Fprintf(&sb, " %s[%s] <- %s", e.Stor.Name, pretty(e.Idx), valString(e.Val))
	case EStoreField:
		fmt.Fprintf(&sb, " %s%s <- %s", e.Obj.Name, pathString(e.Path), valString(e.Val))
	case ECopy:
		fmt.Fprintf(&sb, " %s[%s ..+%s] <- %s", e.Dst.Stor.Name, pretty(e.Dst.Off), pretty(e.N), valString(*e.Src))
	case EGrow:
		fmt.Fprintf(&sb, " append(%s, %s) may=%v", valString(*e.Dst), valString(*e.Src), e.Note)
	case ECall:
		parts := make([]string, len(e.Args))
		for i, a := range e.Args {
			parts[i] = valString(a)
		}
		fmt.Fprintf(&sb, " %s(%s)", e.Callee, strings.Join(parts, ", "))
	case EAlloc:
		fmt.Fprintf(&sb, " %s", e.Note)
	case ESetCap:
		fmt.Fprintf(&sb, " %s%s cap <- %s", e.Obj.Name, pathString(e.Path), pretty(e.N))
	case EIndex:
		if e.Note == "slice" {
			fmt.Fprintf(&sb, " slice[%s:%s:%s] cap=%s", pretty(e.Lo), pretty(e.Hi), pretty(e.Max), pretty(e.N))
		} else {
			fmt.Fprintf(&sb, " %s[%s] len=%s", e.Stor.Key(), pretty(e.Idx), pretty(e.Hi))
		}
	case EDiv:
		fmt.Fprintf(&sb, " %s divisor=%s", e.Note, pretty(e.Idx))
	default:
		sb.WriteString(" " + e.Note)
	}
	if len(e.Loops) > 0 {
		sb.WriteString(" in")
		for _, l := range e.Loops {
			fmt.Fprintf(&sb, " L%d[k<%s]", l.ID, pretty(l.Trip))
		}
	}
	return sb.String()
}

// Modifies reports whether the effect changes memory visible outside the
// activation or has an external side effect.
func (e *Effect) Modifies() bool {
	switch e.Kind {
	case EStoreElem, ECopy, EClear:
		return e.Stor == nil || e.Stor.Kind == SEntry || e.Stor.Kind == SGrown
	case EStoreField, ESetCap:
		return true
	case EGrow:
		return false // allocation + copy into new storage; the header store is separate
	case ECall:
		return !pureExternal(e.Callee)
	}
	return false
}

// pureExternal: standard-library functions that build a value (a string, an error) from their arguments and touch no
// memory of the package; used to format panic messages. Trusted: a Stringer/Formatter method of an argument could
// run arbitrary code; the allocation they cost is C18's business (its callee table is separate and does not list them).
func pureExternal(callee string) bool {
	switch callee {
	case "strconv.Itoa", "strconv.FormatInt", "strconv.FormatUint", "strconv.Quote", "strconv.FormatFloat",
		"fmt.Sprintf", "fmt.Sprint", "fmt.Sprintln", "fmt.Errorf", "errors.New":
		return true
	}
	return false
}

type LoopCtx struct {
	ID       int
	K        *Term // iteration counter atom, 0 <= K < Trip
	Trip     *Term
	TripPoly *Poly
	Fn       *ssa.Function
	Pos      token.Pos
	FactBase int
	// Carried: local objects whose fields the loop advances by a loop-invariant step per iteration (a cursor
	// struct); stores to them inside the body are part of the summary
	Carried map[*Object]bool
}

type hdrStore struct {
	obj  *Object
	path string
}

type State struct {
	mem       map[*Object]Val
	facts     *Facts
	effects   []*Effect
	loops     []*LoopCtx
	hdrStores []hdrStore
	body      int
}

func newState() *State {
	return &State{mem: map[*Object]Val{}, facts: &Facts{}}
}

func (s *State) clone() *State {
	n := &State{mem: make(map[*Object]Val, len(s.mem)), facts: s.facts.clone(), body: s.body}
	for k, v := range s.mem {
		n.mem[k] = v
	}
	n.effects = append([]*Effect{}, s.effects...)
	n.loops = append([]*LoopCtx{}, s.loops...)
	n.hdrStores = append([]hdrStore{}, s.hdrStores...)
	return n
}

func (s *State) addEffect(e *Effect) {
	e.Facts = s.facts.clone()
	e.NFacts = len(s.facts.list)
	e.Loops = append([]*LoopCtx{}, s.loops...)
	e.Seq = len(s.effects)
	e.Body = s.body
	s.effects = append(s.effects, e)
}
