package main

// E4, integer side: numeric abstract interpretation of a conversion kernel
// for one concrete instantiation. A machine value is abstracted by an ideal
// form over the mathematical integers plus a congruence modulus:
// actual ≡ ideal (mod 2^m). Forms are  mode((A·x + B)/D) + C  with A >= 0,
// D >= 1, which is closed under the operations the kernels use and monotone
// non-decreasing in x. See DESIGN appendix C.1.

import (
	"fmt"
	"go/token"
	"math/big"

	"golang.org/x/tools/go/ssa"
)

type divMode int

const (
	mExact divMode = iota // D == 1
	mFloor
	mTrunc
)

type Form struct {
	A, B, D, C *big.Int
	Mode       divMode
}

func formX() Form { return Form{big.NewInt(1), big.NewInt(0), big.NewInt(1), big.NewInt(0), mExact} }
func formConst(c *big.Int) Form {
	return Form{big.NewInt(0), new(big.Int).Set(c), big.NewInt(1), big.NewInt(0), mExact}
}

func (f Form) isConst() bool { return f.A.Sign() == 0 }

func (f Form) eval(x *big.Int) *big.Int {
	num := new(big.Int).Mul(f.A, x)
	num.Add(num, f.B)
	var q *big.Int
	switch f.Mode {
	case mExact:
		q = num
	case mFloor:
		q = floorDiv(num, f.D)
	default:
		q = new(big.Int).Quo(num, f.D)
	}
	return new(big.Int).Add(q, f.C)
}

func floorDiv(a, b *big.Int) *big.Int {
	q, m := new(big.Int).DivMod(a, b, new(big.Int)) // Euclidean: m >= 0
	_ = m
	if b.Sign() < 0 {
		// not used (b > 0 always)
		return new(big.Int).Quo(a, b)
	}
	return q
}

func (f Form) String() string {
	inner := fmt.Sprintf("%s·x + %s", f.A, f.B)
	switch f.Mode {
	case mFloor:
		inner = fmt.Sprintf("floor((%s)/%s)", inner, f.D)
	case mTrunc:
		inner = fmt.Sprintf("trunc((%s)/%s)", inner, f.D)
	}
	if f.C.Sign() != 0 {
		inner += " + " + f.C.String()
	}
	return inner
}

// linear returns (a, b) with f(x) = a·x + b when the form has no division.
func (f Form) linear() (*big.Int, *big.Int, bool) {
	if f.Mode != mExact {
		return nil, nil, false
	}
	return f.A, new(big.Int).Add(f.B, f.C), true
}

type piece struct{ lo, hi *big.Int }

func (p piece) String() string { return fmt.Sprintf("[%s, %s]", p.lo, p.hi) }
func (p piece) empty() bool    { return p.lo.Cmp(p.hi) > 0 }

// IV is an abstract integer value on a piece.
type IV struct {
	k      numKind
	f      Form
	m      int
	lo, hi *big.Int // range of the ideal form on the piece
	z      bool     // the machine value is below 2^m (an unsigned value of m bits that was zero-extended)
}

func (v IV) exact() bool {
	if v.m != v.k.Bits {
		return false
	}
	mn, mx := v.k.minMax()
	return v.lo.Cmp(mn) >= 0 && v.hi.Cmp(mx) <= 0
}

type e4err struct {
	msg    string
	refute bool // the construct contradicts the property (not merely outside the idiom family)
}

func (e e4err) Error() string { return e.msg }

func e4fail(format string, args ...any) error { return e4err{msg: fmt.Sprintf(format, args...)} }

func e4refute(format string, args ...any) error {
	return e4err{msg: fmt.Sprintf(format, args...), refute: true}
}

// e4report records an E4 error as REFUTED or UNDECIDED.
func (c *Checker) e4report(rule, inst, pos string, err error) {
	if e, ok := err.(e4err); ok && e.refute {
		c.refuted(rule, inst, pos, e.msg, "")
		return
	}
	c.undecided(rule, inst, pos, err.Error())
}

type intEval struct {
	pc  piece
	src numKind
	// sample identifies the loads that denote x
	isSample func(*Term) bool
}

func (ev *intEval) mk(k numKind, f Form, m int) IV {
	v := IV{k: k, f: f, m: m, lo: f.eval(ev.pc.lo), hi: f.eval(ev.pc.hi)}
	// actual ≡ ideal (mod 2^m): when the congruence is known to the full width, the ideal form may be
	// replaced by any representative of its class. Choose the one inside the type's range if there is
	// one (this is how `x + ^D(0)` is read as x - 1).
	if m == k.Bits && k.Bits > 0 {
		mn, mx := k.minMax()
		if v.lo.Cmp(mn) < 0 || v.hi.Cmp(mx) > 0 {
			mod := new(big.Int).Lsh(big.NewInt(1), uint(k.Bits))
			// shift so that lo lands in [mn, mn+2^w)
			q := floorDiv(new(big.Int).Sub(v.lo, mn), mod)
			if q.Sign() != 0 {
				sh := new(big.Int).Mul(q, mod)
				lo2, hi2 := new(big.Int).Sub(v.lo, sh), new(big.Int).Sub(v.hi, sh)
				if lo2.Cmp(mn) >= 0 && hi2.Cmp(mx) <= 0 {
					f2 := f
					f2.C = new(big.Int).Sub(f.C, sh)
					v.f, v.lo, v.hi = f2, lo2, hi2
				}
			}
		}
	}
	return v
}

func nu2(c *big.Int) int {
	if c.Sign() == 0 {
		return 1 << 20
	}
	n := 0
	t := new(big.Int).Abs(c)
	for t.Bit(n) == 0 {
		n++
	}
	return n
}

func minI(a, b int) int {
	if a < b {
		return a
	}
	return b
}

func isPow2(c *big.Int) (int, bool) {
	if c.Sign() <= 0 {
		return 0, false
	}
	n := nu2(c)
	if new(big.Int).Lsh(big.NewInt(1), uint(n)).Cmp(c) == 0 {
		return n, true
	}
	return 0, false
}

// eval abstracts an integer-typed term on the current piece.
func (ev *intEval) eval(t *Term) (IV, error) {
	k := kindOf(t.Typ)
	if t.Op != OpCmp && (!k.OK || k.Float) {
		return IV{}, e4fail("non-integer sub-term %s of type %s", pretty(t), typeKey(t.Typ))
	}
	switch t.Op {
	case OpElem:
		if ev.isSample(t) {
			return ev.mk(k, formX(), k.Bits), nil
		}
		return IV{}, e4fail("kernel reads %s, not the sample", pretty(t))
	case OpConst:
		c, ok := bigOf(t.C)
		if !ok {
			return IV{}, e4fail("non-integer constant %s", pretty(t))
		}
		return ev.mk(k, formConst(c), k.Bits), nil
	case OpConv:
		a, err := ev.eval(t.Args[0])
		if err != nil {
			return IV{}, err
		}
		r := ev.mk(k, a.f, k.Bits)
		if !a.exact() {
			r.m = minI(a.m, k.Bits)
			// zero-extension of a wrapped unsigned value: still congruent modulo 2^m, and now known to be below 2^m
			if !a.k.Signed && !k.Signed && k.Bits > a.k.Bits && (a.m == a.k.Bits || a.z) {
				r.z = true
			}
		}
		return r, nil
	case OpAdd, OpSub:
		a, err := ev.eval(t.Args[0])
		if err != nil {
			return IV{}, err
		}
		b, err := ev.eval(t.Args[1])
		if err != nil {
			return IV{}, err
		}
		m := minI(minI(a.m, b.m), k.Bits)
		sign := int64(1)
		if t.Op == OpSub {
			sign = -1
		}
		switch {
		case b.f.isConst():
			f := a.f
			f.C = new(big.Int).Add(f.C, new(big.Int).Mul(big.NewInt(sign), b.f.eval(big.NewInt(0))))
			return ev.mk(k, f, m), nil
		case a.f.isConst() && t.Op == OpAdd:
			f := b.f
			f.C = new(big.Int).Add(f.C, a.f.eval(big.NewInt(0)))
			return ev.mk(k, f, m), nil
		default:
			la, lb, ok1 := a.f.linear()
			ma, mb, ok2 := b.f.linear()
			if !ok1 || !ok2 {
				return IV{}, e4fail("sum of two sample-dependent divided forms: %s", pretty(t))
			}
			A := new(big.Int).Add(la, new(big.Int).Mul(big.NewInt(sign), ma))
			B := new(big.Int).Add(lb, new(big.Int).Mul(big.NewInt(sign), mb))
			if A.Sign() < 0 {
				return IV{}, e4fail("decreasing form (negative slope) in %s", pretty(t))
			}
			return ev.mk(k, Form{A, B, big.NewInt(1), big.NewInt(0), mExact}, m), nil
		}
	case OpMul, OpShl:
		a, err := ev.eval(t.Args[0])
		if err != nil {
			return IV{}, err
		}
		b, err := ev.eval(t.Args[1])
		if err != nil {
			return IV{}, err
		}
		if t.Op == OpShl {
			if !b.f.isConst() || !b.exact() {
				return IV{}, e4fail("shift by a non-constant amount: %s", pretty(t))
			}
			cnt := b.f.eval(big.NewInt(0))
			if cnt.Sign() < 0 || !cnt.IsInt64() {
				return IV{}, e4fail("bad shift count in %s", pretty(t))
			}
			if cnt.Int64() >= int64(k.Bits) {
				return ev.mk(k, formConst(big.NewInt(0)), k.Bits), nil
			}
			c := new(big.Int).Lsh(big.NewInt(1), uint(cnt.Int64()))
			return ev.scale(k, a, c, t)
		}
		switch {
		case b.f.isConst() && b.exact():
			return ev.scale(k, a, b.f.eval(big.NewInt(0)), t)
		case a.f.isConst() && a.exact():
			return ev.scale(k, b, a.f.eval(big.NewInt(0)), t)
		}
		return IV{}, e4fail("product of two sample-dependent (or inexact) values: %s", pretty(t))
	case OpDiv, OpShr:
		a, err := ev.eval(t.Args[0])
		if err != nil {
			return IV{}, err
		}
		b, err := ev.eval(t.Args[1])
		if err != nil {
			return IV{}, err
		}
		if !b.f.isConst() || !b.exact() {
			return IV{}, e4fail("division by a sample-dependent or inexact value: %s", pretty(t))
		}
		c := b.f.eval(big.NewInt(0))
		if t.Op == OpShr {
			if c.Sign() < 0 || !c.IsInt64() || c.Int64() >= int64(k.Bits) {
				return IV{}, e4fail("shift count out of range in %s", pretty(t))
			}
			c = new(big.Int).Lsh(big.NewInt(1), uint(c.Int64()))
		}
		if c.Sign() <= 0 {
			return IV{}, e4refute("division by %s (not a positive constant) in %s", c, pretty(t))
		}
		mode := mTrunc
		if !k.Signed || t.Op == OpShr {
			mode = mFloor
		}
		nm := k.Bits
		if !a.exact() {
			// the wrap-around trick: full-width congruence and a power-of-two divisor
			kk, p2 := isPow2(c)
			if !((a.m == k.Bits || a.z) && p2 && mode == mFloor && kk <= a.m) {
				return IV{}, e4fail("division of a value that may have wrapped (range [%s,%s] in %d-bit %s): %s", a.lo, a.hi, k.Bits, signName(k), pretty(t))
			}
			nm = a.m - kk
		}
		f, err := divForm(a.f, c, mode)
		if err != nil {
			return IV{}, e4fail("%v in %s", err, pretty(t))
		}
		r := ev.mk(k, f, nm)
		r.z = a.z && !a.exact()
		return r, nil
	case OpOr:
		// (v << s) | c with 0 <= c < 2^s sets bits that are zero in v << s: it is v<<s + c, without carries
		a, err := ev.eval(t.Args[0])
		if err != nil {
			return IV{}, err
		}
		b, err := ev.eval(t.Args[1])
		if err != nil {
			return IV{}, err
		}
		if a.f.isConst() && a.exact() && !(b.f.isConst() && b.exact()) {
			a, b = b, a
		}
		if b.f.isConst() && b.exact() {
			cst := b.f.eval(big.NewInt(0))
			la, lb, lin := a.f.linear()
			if cst.Sign() >= 0 && lin {
				s := cst.BitLen()
				if nu2(la) >= s && nu2(lb) >= s && a.m >= s {
					f := a.f
					f.C = new(big.Int).Add(f.C, cst)
					return ev.mk(k, f, minI(a.m, k.Bits)), nil
				}
			}
		}
		return IV{}, e4fail("bitwise or that is not (multiple of 2^s) | (constant below 2^s): %s", pretty(t))
	case OpNeg:
		return IV{}, e4fail("negation in a kernel: %s", pretty(t))
	case OpIte:
		tv, err := ev.decide(t.Args[0], false)
		if err != nil {
			return IV{}, err
		}
		if tv {
			return ev.eval(t.Args[1])
		}
		return ev.eval(t.Args[2])
	}
	return IV{}, e4fail("operation %s outside the form language: %s", opNames[t.Op], pretty(t))
}

func signName(k numKind) string {
	if k.Signed {
		return "signed"
	}
	return "unsigned"
}

func (ev *intEval) scale(k numKind, a IV, c *big.Int, t *Term) (IV, error) {
	if c.Sign() < 0 {
		return IV{}, e4fail("multiplication by a negative constant: %s", pretty(t))
	}
	if c.Sign() == 0 {
		return ev.mk(k, formConst(big.NewInt(0)), k.Bits), nil
	}
	la, lb, ok := a.f.linear()
	if !ok {
		return IV{}, e4fail("multiplication of a divided form: %s", pretty(t))
	}
	f := Form{new(big.Int).Mul(la, c), new(big.Int).Mul(lb, c), big.NewInt(1), big.NewInt(0), mExact}
	return ev.mk(k, f, minI(k.Bits, a.m+nu2(c))), nil
}

func divForm(f Form, c *big.Int, mode divMode) (Form, error) {
	if c.Cmp(big.NewInt(1)) == 0 {
		return f, nil
	}
	switch f.Mode {
	case mExact:
		return Form{f.A, new(big.Int).Add(f.B, f.C), new(big.Int).Set(c), big.NewInt(0), mode}, nil
	case mFloor:
		if mode == mFloor {
			// floor((floor(y/d) + C)/c) = floor((y + C·d)/(d·c))
			return Form{f.A, new(big.Int).Add(f.B, new(big.Int).Mul(f.C, f.D)), new(big.Int).Mul(f.D, c), big.NewInt(0), mFloor}, nil
		}
	}
	return Form{}, fmt.Errorf("nested division that does not collapse")
}

// decide evaluates a boolean term that must be constant on the piece.
func (ev *intEval) decide(t *Term, neg bool) (bool, error) {
	lo, hi, err := ev.truth(t)
	if err != nil {
		return false, err
	}
	if lo != hi {
		return false, e4fail("condition %s is not constant on piece %s", pretty(t), ev.pc)
	}
	return lo != neg, nil
}

// truth returns the truth value of the comparison at both ends of the piece
// (comparisons of monotone exact forms are monotone in x).
func (ev *intEval) truth(t *Term) (bool, bool, error) {
	if b, ok := t.ConstBool(); ok {
		return b, b, nil
	}
	if t.Op == OpLNot {
		a, b, err := ev.truth(t.Args[0])
		return !a, !b, err
	}
	if t.Op != OpCmp {
		return false, false, e4fail("condition %s is not a comparison", pretty(t))
	}
	a, err := ev.eval(t.Args[0])
	if err != nil {
		return false, false, err
	}
	b, err := ev.eval(t.Args[1])
	if err != nil {
		return false, false, err
	}
	if !a.exact() || !b.exact() {
		return false, false, e4fail("comparison of a value that may have wrapped: %s (ranges [%s,%s] vs [%s,%s])", pretty(t), a.lo, a.hi, b.lo, b.hi)
	}
	cmp := func(x *big.Int) bool {
		va, vb := a.f.eval(x), b.f.eval(x)
		c := va.Cmp(vb)
		switch t.Tok {
		case token.LSS:
			return c < 0
		case token.LEQ:
			return c <= 0
		case token.GTR:
			return c > 0
		case token.GEQ:
			return c >= 0
		case token.EQL:
			return c == 0
		default:
			return c != 0
		}
	}
	return cmp(ev.pc.lo), cmp(ev.pc.hi), nil
}

// split narrows the piece by one branch condition (term with polarity).
// Only one side may depend on x, through a linear exact form.
func (ev *intEval) split(t *Term, neg bool) error {
	if t.Op == OpLNot {
		return ev.split(t.Args[0], !neg)
	}
	if b, ok := t.ConstBool(); ok {
		if b == neg {
			ev.pc = piece{big.NewInt(1), big.NewInt(0)}
		}
		return nil
	}
	if t.Op != OpCmp {
		return e4fail("branch condition %s is not a comparison", pretty(t))
	}
	// a sign test on the converted sample, float64(s) ⋈ 0: the conversion of an integer to a floating type is
	// monotone and maps 0 to 0, so the test decides the same as s ⋈ 0
	{
		strip := func(x *Term) *Term {
			if x.Op == OpConv && kindOf(x.Typ).Float && kindOf(x.Args[0].Typ).OK && !kindOf(x.Args[0].Typ).Float {
				return x.Args[0]
			}
			return nil
		}
		zero := func(x *Term) bool {
			f, ok := constFloat(x)
			return ok && x.IsConst() && f == 0 && kindOf(x.Typ).Float
		}
		if ia := strip(t.Args[0]); ia != nil && zero(t.Args[1]) {
			t = &Term{Op: OpCmp, Tok: t.Tok, Typ: t.Typ, Args: []*Term{ia, mkInt(0, ia.Typ)}}
		} else if ib := strip(t.Args[1]); ib != nil && zero(t.Args[0]) {
			t = &Term{Op: OpCmp, Tok: t.Tok, Typ: t.Typ, Args: []*Term{mkInt(0, ib.Typ), ib}}
		}
	}
	a, err := ev.eval(t.Args[0])
	if err != nil {
		return err
	}
	b, err := ev.eval(t.Args[1])
	if err != nil {
		return err
	}
	if !a.exact() || !b.exact() {
		return e4fail("branch on a value that may have wrapped: %s (ideal ranges [%s,%s] and [%s,%s])", pretty(t), a.lo, a.hi, b.lo, b.hi)
	}
	la, lb, ok1 := a.f.linear()
	ma, mb, ok2 := b.f.linear()
	if !ok1 || !ok2 {
		return e4fail("branch on a divided form: %s", pretty(t))
	}
	// d(x) = s·x + c  with  a(x) - b(x)
	s := new(big.Int).Sub(la, ma)
	c := new(big.Int).Sub(lb, mb)
	tok := t.Tok
	if neg {
		tok = map[token.Token]token.Token{token.LSS: token.GEQ, token.LEQ: token.GTR, token.GTR: token.LEQ, token.GEQ: token.LSS, token.EQL: token.NEQ, token.NEQ: token.EQL}[tok]
	}
	if s.Sign() == 0 {
		// constant condition
		sg := c.Sign()
		truth := map[token.Token]bool{token.LSS: sg < 0, token.LEQ: sg <= 0, token.GTR: sg > 0, token.GEQ: sg >= 0, token.EQL: sg == 0, token.NEQ: sg != 0}[tok]
		if !truth {
			ev.pc = piece{big.NewInt(1), big.NewInt(0)}
		}
		return nil
	}
	if s.Sign() < 0 {
		s.Neg(s)
		c.Neg(c)
		tok = map[token.Token]token.Token{token.LSS: token.GTR, token.LEQ: token.GEQ, token.GTR: token.LSS, token.GEQ: token.LEQ, token.EQL: token.EQL, token.NEQ: token.NEQ}[tok]
	}
	// s·x + c ⋈ 0 with s > 0:  x ⋈ -c/s
	nc := new(big.Int).Neg(c)
	switch tok {
	case token.GTR: // x > -c/s  <=> x >= floor(-c/s) + 1
		lo := new(big.Int).Add(floorDiv(nc, s), big.NewInt(1))
		if lo.Cmp(ev.pc.lo) > 0 {
			ev.pc.lo = lo
		}
	case token.GEQ: // x >= ceil(-c/s)
		lo := new(big.Int).Neg(floorDiv(c, s))
		if lo.Cmp(ev.pc.lo) > 0 {
			ev.pc.lo = lo
		}
	case token.LSS: // x < -c/s <=> x <= ceil(-c/s) - 1
		hi := new(big.Int).Sub(new(big.Int).Neg(floorDiv(c, s)), big.NewInt(1))
		if hi.Cmp(ev.pc.hi) < 0 {
			ev.pc.hi = hi
		}
	case token.LEQ: // x <= floor(-c/s)
		hi := floorDiv(nc, s)
		if hi.Cmp(ev.pc.hi) < 0 {
			ev.pc.hi = hi
		}
	case token.EQL, token.NEQ:
		// x == v or x != v with v = -c/s: representable when v is an end point of the piece (or outside it)
		q, r := new(big.Int).QuoRem(nc, s, new(big.Int))
		integral := r.Sign() == 0
		inside := integral && q.Cmp(ev.pc.lo) >= 0 && q.Cmp(ev.pc.hi) <= 0
		if tok == token.EQL {
			if !inside {
				ev.pc = piece{big.NewInt(1), big.NewInt(0)}
			} else {
				ev.pc = piece{new(big.Int).Set(q), new(big.Int).Set(q)}
			}
			return nil
		}
		switch {
		case !inside:
		case q.Cmp(ev.pc.lo) == 0:
			ev.pc.lo = new(big.Int).Add(q, big.NewInt(1))
		case q.Cmp(ev.pc.hi) == 0:
			ev.pc.hi = new(big.Int).Sub(q, big.NewInt(1))
		default:
			return e4fail("inequality branch that removes an interior value of the piece: %s", pretty(t))
		}
	default:
		return e4fail("unsupported comparison on the sample: %s", pretty(t))
	}
	return nil
}

// ---------- kernel extraction ----------

// kernelPiece is one path through the loop body of a conversion: its branch
// conditions and the stored value.
type kernelPiece struct {
	conds []Cond
	val   *Term
	eff   *Effect
}

type kernel struct {
	fn     *ssa.Function
	pieces []kernelPiece
	sample func(*Term) bool
	ret    *Summary
}

// extractKernel summarises the instantiated conversion with both bit depths
// fixed and returns the stores of its (single reachable) loop.
func (c *Checker) extractKernel(fn *ssa.Function, srcDepth, dstDepth int64) (*kernel, error) {
	if len(fn.Params) != 2 {
		return nil, e4fail("expected (src, dst) parameters")
	}
	src, dst := buf{paramName(fn, 0)}, buf{paramName(fn, 1)}
	bd := c.typeByName("BitDepth")
	assume := map[string]*Term{
		src.name + hdrLayout.depthSuffix(): mkInt(srcDepth, bd),
		dst.name + hdrLayout.depthSuffix(): mkInt(dstDepth, bd),
	}
	s := c.runAssumed(fn, assume)
	k := &kernel{fn: fn, ret: s}
	k.sample = func(t *Term) bool { return t.Op == OpElem && t.Stor != nil && t.Stor.Name == src.stor() }
	for _, o := range s.Outcomes {
		for _, e := range o.St.effects {
			if e.Kind == EUndecided {
				return nil, e4fail("undecided construct: %s", e.Note)
			}
		}
	}
	nLoopPaths := 0
	firstSig := ""
	for _, o := range retPaths(s) {
		var stores []*Effect
		for _, e := range mods(o) {
			if e.Kind == EStoreElem && e.Stor.Name == dst.stor() && len(e.Loops) == 1 {
				stores = append(stores, e)
			} else {
				return nil, e4fail("unexpected effect in the conversion: %s", e.String())
			}
		}
		if len(stores) == 0 {
			continue
		}
		// return paths that differ only after the loop (e.g. in how the returned count is computed) carry the
		// same stores: they are one loop path
		sig := ""
		for _, e := range stores {
			sig += fmt.Sprintf("%d:%s|", e.Pos, valString(e.Val))
			if len(e.Loops) > 0 {
				for _, f := range e.Facts.list[minI(e.Loops[0].FactBase, len(e.Facts.list)):] {
					if f.Tag != "axiom" && f.Tag != "loop" {
						sig += f.String() + ";"
					}
				}
			}
		}
		if nLoopPaths > 0 && sig == firstSig {
			continue
		}
		nLoopPaths++
		if nLoopPaths > 1 {
			return nil, e4fail("more than one loop path is reachable with fixed bit depths")
		}
		firstSig = sig
		for _, e := range stores {
			v := valTerm(e.Val)
			if v == nil {
				return nil, e4fail("stored value is not scalar")
			}
			l := e.Loops[0]
			posT := l.K
			if !eqInt(e.Idx, l.K) {
				// a loop that walks down visits the same positions; whether that order is acceptable is C05's question
				rev := mkBin(token.SUB, mkBin(token.SUB, l.Trip, mkInt(1, intT), intT), l.K, intT)
				if !eqInt(e.Idx, rev) {
					return nil, e4fail("store position is not the loop index")
				}
				posT = rev
			}
			// the kernel must be applied to every position of the common prefix (C05-R1), otherwise
			// some samples are not converted at all
			if !eqInt(l.Trip, specMin(src.lenT(), dst.lenT())) {
				return nil, e4refute("the conversion loop does not cover the common prefix min(len(src), len(dst)): it runs over %s positions", pretty(canon(l.Trip)))
			}
			for _, ld := range elemLoads(v) {
				if !k.sample(ld) || !eqInt(ld.Args[0], posT) {
					return nil, e4fail("kernel reads %s, not source sample i", pretty(ld))
				}
			}
			kp := kernelPiece{val: v, eff: e}
			for _, f := range e.Facts.list[minI(l.FactBase, len(e.Facts.list)):] {
				if f.Tag == "axiom" || f.Tag == "loop" {
					continue
				}
				if f.Orig == nil {
					return nil, e4fail("branch condition without a source term: %s", f.String())
				}
				kp.conds = append(kp.conds, f)
			}
			k.pieces = append(k.pieces, expandIte(kp, 0)...)
		}
	}
	if len(k.pieces) == 0 {
		return nil, e4fail("no store into the destination found")
	}
	return k, nil
}

// expandIte turns a conditional value (a branch that was moved into a pure helper and merged back into an
// if-then-else term) into separate kernel pieces, one per arm, with the arm's condition added.
func expandIte(kp kernelPiece, depth int) []kernelPiece {
	var ite *Term
	kp.val.walk(func(x *Term) bool {
		if ite != nil {
			return false
		}
		if x.Op == OpElem {
			return false // a conditional inside the position of a load is not a case split of the kernel
		}
		if x.Op == OpIte {
			ite = x
			return false
		}
		return true
	})
	if ite == nil || depth > 6 {
		return []kernelPiece{kp}
	}
	repl := func(t *Term, with *Term) *Term {
		var rw func(*Term) *Term
		rw = func(x *Term) *Term {
			if x == ite {
				return with
			}
			if len(x.Args) == 0 {
				return x
			}
			args := make([]*Term, len(x.Args))
			ch := false
			for i, a := range x.Args {
				args[i] = rw(a)
				if args[i] != a {
					ch = true
				}
			}
			if !ch {
				return x
			}
			return rebuild(x, args)
		}
		return rw(t)
	}
	a := kernelPiece{eff: kp.eff, val: repl(kp.val, ite.Args[1]), conds: append(append([]Cond{}, kp.conds...), Cond{Kind: COther, T: ite.Args[0], Orig: ite.Args[0]})}
	b := kernelPiece{eff: kp.eff, val: repl(kp.val, ite.Args[2]), conds: append(append([]Cond{}, kp.conds...), Cond{Kind: COther, T: ite.Args[0], Orig: ite.Args[0], OrigNeg: true})}
	return append(expandIte(a, depth+1), expandIte(b, depth+1)...)
}
