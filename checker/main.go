package main

import (
	"flag"
	"fmt"
	"os"
	"strings"
)

func main() {
	prop := flag.String("prop", "", "property id")
	tier := flag.String("tier", "quick", "quick|thorough")
	dump := flag.String("dump", "", "dump summaries of functions whose name contains this string")
	flag.Parse()
	_ = prop
	_ = tier
	dir := os.Getenv("VERIF_REPO")
	if dir == "" {
		dir = "/repo"
	}
	w, err := loadWorld(dir, "amd64")
	if err != nil {
		fmt.Println("LOAD ERROR:", err)
		os.Exit(2)
	}
	if *dump != "" {
		for _, fn := range w.sortedFuncs() {
			if strings.ReplaceAll(fn.String(), w.Pkg.PkgPath+".", "") != *dump {
				continue
			}
			dumpSummary(w, w.Interp.Run(fn))
		}
	}
}

func dumpSummary(w *World, s *Summary) {
	fmt.Printf("=== %s: %d outcomes\n", s.Fn, len(s.Outcomes))
	for i, o := range s.Outcomes {
		kind := map[OutKind]string{ORet: "return", OPanic: "panic", OBack: "back"}[o.Kind]
		fmt.Printf("--- path %d: %s", i, kind)
		if o.Kind == ORet && o.Ret != nil {
			if t, ok := o.Ret.(*Term); ok {
				fmt.Printf(" %s   [canon: %s]", pretty(t), pretty(canon(t)))
			} else {
				fmt.Printf(" %s", valString(o.Ret))
			}
		}
		if o.Kind == OPanic {
			fmt.Printf(" %s", valString(o.PanicVal))
		}
		fmt.Println()
		fmt.Printf("    facts: %s\n", o.St.facts)
		for _, e := range o.St.effects {
			fmt.Printf("    eff: %s  @%s\n", e, w.Prog.Fset.Position(e.Pos))
		}
		for ob, v := range o.St.mem {
			if ob.Kind == OFresh {
				fmt.Printf("    mem: %s = %s\n", ob.Name, valString(v))
			}
		}
	}
}
