package main

import (
	"flag"
	"fmt"
	"golang.org/x/tools/go/ssa"
	"os"
	"path/filepath"
	"strconv"
)

var checks = map[string]func(*Checker){
	"C01": checkC01,
	"C02": checkC02,
	"C03": checkC03,
	"C04": checkC04,
	"C05": checkC05,
	"C15": checkC15,
	"C16": checkC16,
	"C17": checkC17,
	"C18": checkC18,
	"C19": checkC19,
	"C20": checkC20,
	"C06": checkC06,
	"C07": checkC07,
	"C08": checkC08,
	"C09": checkC09,
	"C10": checkC10,
	"C11": checkC11,
	"C12": checkC12,
	"C13": checkC13,
	"C14": checkC14,
}

// thoroughArch lists the properties whose thorough tier adds the 386 configuration.
var thoroughArch = map[string]bool{"C13": true, "C06": true, "C07": true, "C08": true, "C09": true, "C16": true}

func main() {
	prop := flag.String("prop", "", "property id")
	tier := flag.String("tier", "", "quick|thorough")
	dump := flag.String("dump", "", "dump the summary of the function with this short name")
	arch := flag.String("arch", "amd64", "GOARCH for -dump")
	flag.Parse()
	dir := os.Getenv("VERIF_REPO")
	if dir == "" {
		dir = "/repo"
	}
	verifDir := os.Getenv("VERIF_DIR")
	if verifDir == "" {
		exe, _ := os.Executable()
		verifDir = filepath.Dir(filepath.Dir(exe))
	}
	if *tier == "" {
		*tier = os.Getenv("VERIF_TIER")
	}
	if *tier == "" {
		*tier = "quick"
	}
	seed, _ := strconv.Atoi(os.Getenv("VERIF_SEED"))
	if *dump != "" {
		w, err := loadWorld(dir, *arch)
		if err != nil {
			fmt.Println("LOAD ERROR:", err)
			os.Exit(2)
		}
		for _, fn := range w.sortedFuncs() {
			if shortFn(w, fn) != *dump {
				continue
			}
			dumpSummary(w, w.Interp.Run(fn))
		}
		return
	}
	f, ok := checks[*prop]
	if !ok {
		fmt.Println("unknown property", *prop)
		os.Exit(2)
	}
	c := newChecker(*prop, *tier, seed, verifDir)
	code := runCheck(c, f, dir)
	os.Exit(code)
}

// shapeProps: properties whose rules read integers mathematically (shape arithmetic); they carry premise I0.
var shapeProps = map[string]bool{"C01": true, "C02": true, "C03": true, "C04": true, "C05": true, "C10": true, "C12": true,
	"C13": true, "C14": true, "C15": true, "C20": true}

func runCheck(c *Checker, f func(*Checker), dir string) (code int) {
	defer func() {
		if r := recover(); r != nil {
			// a panic in the checker fails the check, never passes it
			c.W = nil
			c.undecided(c.Prop+"-internal", "checker", "", fmt.Sprint("checker panic: ", r))
			code = c.finish()
			if code == 0 {
				code = 1
			}
		}
	}()
	archs := []string{"amd64"}
	// properties whose verdict depends on the width of int/uint/uintptr are checked on a 32-bit
	// configuration in the quick tier as well; the thorough tier adds it for every property
	if c.Tier == "thorough" || thoroughArch[c.Prop] {
		archs = append(archs, "386")
	}
	for _, a := range archs {
		w, err := loadWorld(dir, a)
		if err != nil {
			c.W = nil
			c.undecided(c.Prop+"-load", "load/"+a, "", "cannot load and type-check the repository: "+err.Error())
			continue
		}
		c.W = w
		c.sums = nil
		c.sums = map[*ssa.Function]*Summary{}
		c.pm = nil
		f(c)
		if shapeProps[c.Prop] {
			checkI0(c, c.Prop+"-I0")
		}
	}
	return c.finish()
}

func dumpSummary(w *World, s *Summary) {
	fmt.Printf("=== %s: %d outcomes\n", s.Fn, len(s.Outcomes))
	for i, o := range s.Outcomes {
		kind := map[OutKind]string{ORet: "return", OPanic: "panic", OBack: "back", OAbort: "abort"}[o.Kind]
		fmt.Printf("--- path %d: %s", i, kind)
		if o.Kind == ORet && o.Ret != nil {
			if t, ok := o.Ret.(*Term); ok {
				fmt.Printf(" %s   [canon: %s]", pretty(t), pretty(canon(t)))
			} else {
				fmt.Printf(" %s", valString(o.Ret))
			}
		}
		if o.Kind == OPanic {
			fmt.Printf(" %s", valString(o.PanicVal))
		}
		fmt.Println()
		fmt.Printf("    facts: %s\n", o.St.facts)
		for _, e := range o.St.effects {
			fmt.Printf("    eff: %s  @%s\n", e, w.Prog.Fset.Position(e.Pos))
		}
		for ob, v := range o.St.mem {
			if ob.Kind == OFresh {
				fmt.Printf("    mem: %s = %s\n", ob.Name, valString(v))
			}
		}
	}
}
