package main

import (
	"fmt"
	"go/types"
	"os"
	"sort"
	"strings"

	"golang.org/x/tools/go/packages"
	"golang.org/x/tools/go/ssa"
	"golang.org/x/tools/go/ssa/ssautil"
)

// World is one loaded configuration (GOARCH) of the repository.
type World struct {
	Arch   string
	Dir    string
	Pkg    *packages.Package
	Prog   *ssa.Program
	SSA    *ssa.Package
	Sizes  types.Sizes
	Funcs  map[string]*ssa.Function // by String() of origin / instance
	Interp *Interp
}

var coreTypes = []string{"int", "int8", "int16", "int32", "int64", "uint", "uint8", "uint16", "uint32", "uint64", "uintptr", "float32", "float64"}
var signedTypes = []string{"int", "int8", "int16", "int32", "int64"}
var unsignedTypes = []string{"uint", "uint8", "uint16", "uint32", "uint64", "uintptr"}
var floatTypes = []string{"float32", "float64"}

func namedOf(t string) string { return "verifN" + strings.ToUpper(t[:1]) + t[1:] }

func namedSigned() []string { return []string{namedOf("int8"), namedOf("int16"), namedOf("int64")} }
func namedUnsigned() []string {
	return []string{namedOf("uint8"), namedOf("uint32"), namedOf("uint64")}
}
func namedFloats() []string { return []string{namedOf("float32"), namedOf("float64")} }

// witnessSource generates an in-memory file of package signal (never written
// to disk) whose only purpose is to make go/ssa instantiate the generic
// functions at every element type (and at named types over them).
func witnessSource(pkgName string, have map[string]bool) string {
	var sb strings.Builder
	sb.WriteString("package " + pkgName + "\n\n")
	for _, t := range coreTypes {
		fmt.Fprintf(&sb, "type %s %s\n", namedOf(t), t)
	}
	sb.WriteString("\nvar verifWitness = []any{\n")
	emit := func(fn string, args ...string) {
		if !have[fn] {
			return
		}
		fmt.Fprintf(&sb, "\t%s[%s],\n", fn, strings.Join(args, ", "))
	}
	pairs := func(fn string, ss, ds []string) {
		for _, s := range ss {
			for _, d := range ds {
				emit(fn, s, d)
			}
		}
	}
	pairs("FloatAsFloat", floatTypes, floatTypes)
	pairs("FloatAsSigned", floatTypes, signedTypes)
	pairs("FloatAsUnsigned", floatTypes, unsignedTypes)
	pairs("SignedAsFloat", signedTypes, floatTypes)
	pairs("UnsignedAsFloat", unsignedTypes, floatTypes)
	pairs("SignedAsSigned", signedTypes, signedTypes)
	pairs("SignedAsUnsigned", signedTypes, unsignedTypes)
	pairs("UnsignedAsSigned", unsignedTypes, signedTypes)
	pairs("UnsignedAsUnsigned", unsignedTypes, unsignedTypes)
	// named element types: a representative grid for the numeric rules
	ns, nu, nf := namedSigned(), namedUnsigned(), namedFloats()
	pairs("SignedAsSigned", ns, ns)
	pairs("SignedAsUnsigned", ns, nu)
	pairs("UnsignedAsSigned", nu, ns)
	pairs("UnsignedAsUnsigned", nu, nu)
	pairs("FloatAsSigned", nf, ns[:2])
	pairs("FloatAsUnsigned", nf, nu[:2])
	pairs("SignedAsFloat", ns[:2], nf)
	pairs("UnsignedAsFloat", nu[:2], nf)
	for _, t := range coreTypes {
		emit("Alloc", t)
		emit("Alloc", namedOf(t))
		emit("getBitDepth", t)
		emit("getBitDepth", namedOf(t))
		emit("PoolAlloc", t)
	}
	for _, t := range append(append([]string{}, signedTypes...), unsignedTypes...) {
		emit("Scale", t)
	}
	sb.WriteString("}\n")
	// positive control of rule I0 and probes that tell the rules where a header keeps its channel count and depth
	sb.WriteString("\nfunc verifControlNarrow(x int) uint16 { return uint16(x) }\n")
	if have["Alloc"] {
		sb.WriteString("func verifProbeChannels[T SignalTypes](b *Buffer[T]) int { return b.Channels() }\n")
		sb.WriteString("func verifProbeDepth[T SignalTypes](b *Buffer[T]) BitDepth { return b.BitDepth() }\n")
		sb.WriteString("func verifProbeIndex[T SignalTypes](b *Buffer[T], channel, idx int) int { return b.BufferIndex(channel, idx) }\n")
		sb.WriteString("var verifProbes = []any{verifProbeChannels[int8], verifProbeDepth[int8], verifProbeIndex[int8]}\n")
	}
	return sb.String()
}

const witnessFile = "zz_verif_witness_generated.go"

func loadWorld(dir, arch string) (*World, error) {
	env := append(os.Environ(), "GOARCH="+arch, "GOFLAGS=-mod=mod", "GOPROXY=off", "GOSUMDB=off", "GOWORK=off", "CGO_ENABLED=0")
	mode := packages.LoadAllSyntax
	// first pass without witness to learn the package name and which generic functions exist
	cfg0 := &packages.Config{Mode: packages.NeedName | packages.NeedTypes | packages.NeedSyntax | packages.NeedTypesInfo | packages.NeedImports | packages.NeedDeps | packages.NeedFiles, Dir: dir, Env: env}
	p0, err := packages.Load(cfg0, ".")
	if err != nil {
		return nil, err
	}
	if len(p0) != 1 {
		return nil, fmt.Errorf("expected exactly one root package, found %d", len(p0))
	}
	if len(p0[0].Errors) > 0 {
		return nil, fmt.Errorf("type errors in %s: %v", dir, p0[0].Errors)
	}
	have := map[string]bool{}
	sc := p0[0].Types.Scope()
	for _, n := range sc.Names() {
		if f, ok := sc.Lookup(n).(*types.Func); ok {
			if sig := f.Type().(*types.Signature); sig.TypeParams().Len() > 0 {
				have[n] = true
			}
		}
	}
	src := witnessSource(p0[0].Name, have)
	cfg := &packages.Config{Mode: mode, Dir: dir, Env: env, Overlay: map[string][]byte{dir + "/" + witnessFile: []byte(src)}}
	pkgs, err := packages.Load(cfg, ".")
	if err != nil {
		return nil, err
	}
	if len(pkgs) != 1 {
		return nil, fmt.Errorf("expected exactly one root package, found %d", len(pkgs))
	}
	if len(pkgs[0].Errors) > 0 {
		return nil, fmt.Errorf("type errors (with instantiation witness) in %s: %v", dir, pkgs[0].Errors)
	}
	prog, sp := ssautil.AllPackages(pkgs, ssa.InstantiateGenerics)
	prog.Build()
	w := &World{Arch: arch, Dir: dir, Pkg: pkgs[0], Prog: prog, SSA: sp[0], Sizes: pkgs[0].TypesSizes, Funcs: map[string]*ssa.Function{}}
	if w.SSA == nil {
		return nil, fmt.Errorf("no SSA package")
	}
	wordBits = int(w.Sizes.Sizeof(types.Typ[types.Int])) * 8
	for fn := range ssautil.AllFunctions(prog) {
		if fn.Pkg == w.SSA || (fn.Origin() != nil && fn.Origin().Pkg == w.SSA) {
			if strings.Contains(fn.Synthetic, "wrapper") {
				continue
			}
			w.Funcs[fnKey(fn)] = fn
		}
	}
	// generic method origins are not "reachable" for AllFunctions: add them through the type-checker's objects
	scope := w.Pkg.Types.Scope()
	for _, n := range scope.Names() {
		switch o := scope.Lookup(n).(type) {
		case *types.Func:
			if f := prog.FuncValue(o); f != nil {
				w.Funcs[fnKey(f)] = f
			}
		case *types.TypeName:
			if nt, ok := o.Type().(*types.Named); ok {
				for i := 0; i < nt.NumMethods(); i++ {
					if f := prog.FuncValue(nt.Method(i)); f != nil {
						w.Funcs[fnKey(f)] = f
					}
				}
			}
		}
	}
	// anonymous functions
	for _, f := range w.sortedFuncs() {
		for _, a := range f.AnonFuncs {
			w.Funcs[fnKey(a)] = a
		}
	}
	w.Interp = newInterp(prog, w.SSA, w.Sizes)
	discoverHeaderLayout(w)
	return w, nil
}

func (w *World) sortedFuncs() []*ssa.Function {
	var ks []string
	for k := range w.Funcs {
		ks = append(ks, k)
	}
	sort.Strings(ks)
	out := make([]*ssa.Function, len(ks))
	for i, k := range ks {
		out[i] = w.Funcs[k]
	}
	return out
}

// Fn resolves a package-level function or a method ("(*Buffer[T]).Slice")
// generic origin by name through the type-checked package.
func (w *World) Fn(name string) *ssa.Function {
	const pfx = "pipelined.dev/signal."
	if f, ok := w.Funcs[name]; ok {
		return f
	}
	path := w.Pkg.PkgPath
	for k, f := range w.Funcs {
		s := strings.ReplaceAll(k, path+".", "")
		if s == name {
			return f
		}
	}
	_ = pfx
	// the names of type parameters are not part of a function's identity: "(*Buffer[D]).Append" also names
	// func (b *Buffer[T]) Append
	if g := genericKey(name); g != "" {
		var hit *ssa.Function
		n := 0
		for k, f := range w.Funcs {
			if f.Origin() != nil {
				continue
			}
			if genericKey(strings.ReplaceAll(k, path+".", "")) == g {
				hit = f
				n++
			}
		}
		if n == 1 {
			return hit
		}
	}
	// a method named through the type it used to be declared on, e.g. "(channels).BufferIndex": when that type is
	// gone, the method a *Buffer promotes under the same name is the one meant (the anchor is the operation)
	if i := strings.Index(name, ")."); strings.HasPrefix(name, "(") && i > 0 && !strings.Contains(name, "[") {
		mname := name[i+2:]
		if o := w.Pkg.Types.Scope().Lookup("Buffer"); o != nil {
			ms := types.NewMethodSet(types.NewPointer(o.Type()))
			for j := 0; j < ms.Len(); j++ {
				sel := ms.At(j)
				if sel.Obj().Name() == mname && len(sel.Index()) > 1 { // promoted through an embedded field
					if f, ok := sel.Obj().(*types.Func); ok {
						if fn := w.Prog.FuncValue(f); fn != nil {
							return fn
						}
					}
				}
			}
		}
	}
	return nil
}

// fnKey is the canonical name of an SSA function (type arguments comma-separated).
func fnKey(fn *ssa.Function) string { return strings.ReplaceAll(fn.String(), " ", ",") }

// discoverHeaderLayout sets hdrLayout from the loaded tree: the field that b.Channels() reads, the field that
// b.BitDepth() reads (probe functions of the generated witness file) and the one slice-typed field of Buffer.
func discoverHeaderLayout(w *World) {
	h := &headerLayout{data: []string{"data"}, ch: []string{"channels"}, depth: []string{"bitDepth"}}
	hdrLayout = h
	if o := w.Pkg.Types.Scope().Lookup("Buffer"); o != nil {
		if sp := slicePath(o.Type()); sp != nil {
			h.data = sp
		}
	}
	probe := func(name string) []string {
		fn := w.Fn(name + "[int8]")
		if fn == nil {
			return nil
		}
		s := w.Interp.runQuiet(fn, nil)
		rets := retPaths(s)
		if len(rets) != 1 {
			return nil
		}
		t := valTerm(rets[0].Ret)
		if t == nil {
			return nil
		}
		t = canon(t)
		for t.Op == OpConv && len(t.Args) == 1 {
			t = t.Args[0]
		}
		pn := paramName(fn, 0)
		if t.Op != OpAtom || !strings.HasPrefix(t.Name, pn+".") {
			return nil
		}
		return strings.Split(strings.TrimPrefix(t.Name, pn+"."), ".")
	}
	if p := probe("verifProbeChannels"); p != nil {
		h.ch = p
	}
	if p := probe("verifProbeDepth"); p != nil {
		h.depth = p
	}
}

// genericKey blanks the type-parameter names in a function name ("(*Buffer[D]).Append" -> "(*Buffer[_]).Append");
// it returns "" when a bracket holds a concrete type (an instantiation is identified by its type arguments).
func genericKey(name string) string {
	var sb strings.Builder
	i := 0
	any := false
	for i < len(name) {
		j := strings.IndexByte(name[i:], '[')
		if j < 0 {
			sb.WriteString(name[i:])
			break
		}
		k := strings.IndexByte(name[i+j:], ']')
		if k < 0 {
			return ""
		}
		inner := name[i+j+1 : i+j+k]
		for _, tok := range strings.Split(inner, ",") {
			tok = strings.TrimSpace(tok)
			if tok == "" {
				return ""
			}
			for _, ct := range coreTypes {
				if tok == ct {
					return ""
				}
			}
			if strings.HasPrefix(tok, "verifN") || strings.ContainsAny(tok, ".*[]() ") {
				return ""
			}
		}
		sb.WriteString(name[i : i+j])
		sb.WriteString("[")
		sb.WriteString(strings.Repeat("_,", strings.Count(inner, ",")))
		sb.WriteString("_]")
		any = true
		i = i + j + k + 1
	}
	if !any {
		return ""
	}
	return sb.String()
}
